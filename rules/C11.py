"""C11 — the lzma_code() calling protocol is enforced and accounted exactly."""
import itertools

from sa import ex, cfg, fd, machine
from sa.compdb import AnalysisBroken
from . import common
import spec.protocol as P


def _is_avail_cmp(n):
    n = ex.strip(n)
    if n is None or n.get("k") != "bin" or n["op"] != "!=":
        return False
    l, r = ex.strip(n["l"]), ex.strip(n["r"])
    return (l is not None and r is not None and l.get("k") == "mem" and r.get("k") == "mem"
            and l["f"] == "avail_in" and r["f"] == "avail_in")


def _pseudo(label, pred, domain=(0, 1)):
    k = fd.Key("var", "$" + label, domain=domain, label=label)
    k.matches = pred
    return k


def derive(prog):
    cg = common.callgraph(prog)
    f = prog.fn("lzma_code", "/common.c")
    iseq = prog.enum_with("ISEQ_RUN", f.file)
    inames = {v: k for k, v in iseq.items()}
    rets = prog.enum("lzma_ret")
    rnames = {v: k for k, v in rets.items()}
    act = prog.enum("lzma_action")
    anames = {v: k for k, v in act.items()}

    def m_supported(n):
        n = ex.strip(n)
        if n is None or n.get("k") != "idx":
            return False
        b = ex.strip(n["b"])
        return b is not None and b.get("k") == "mem" and b["f"] == "supported_actions"

    def m_sane(n):
        # atoms of the sanity checks that are fixed to their "sane" value
        n = ex.strip(n)
        if n is None or n.get("k") != "bin" or n["op"] not in ("==", "!="):
            return False
        l = ex.strip(n["l"])
        if l is None or l.get("k") != "mem":
            return False
        return (l["f"] in ("next_in", "next_out", "internal", "code") and n["op"] == "==") or \
            (l["f"].startswith("reserved_") and n["op"] == "!=")

    keys = [
        fd.Key("field", "sequence", rec="lzma_internal_s", domain=iseq.values(), label="seq"),
        fd.Key("var", "action", domain=range(6), label="action"),
        fd.Key("var", "ret", domain=rets.values(), label="ret"),
        fd.Key("field", "allow_buf_error", rec="lzma_internal_s", domain=(0, 1), label="abe"),
        fd.Key("var", "in_pos", domain=(0, 1), label="in_pos"),
        fd.Key("var", "out_pos", domain=(0, 1), label="out_pos"),
        _pseudo("supported", m_supported),
        _pseudo("changed", _is_avail_cmp),
        _pseudo("insane", m_sane, domain=(0,)),
        fd.Key("retval", "$ret", label="$ret"),
    ]
    table = {}
    ncases = 0
    for cr in sorted(rets.values()):
        g = fd.FD(prog, f, keys, cg=cg, split=32, call_values=lambda c, s, cr=cr: frozenset([cr]))
        inits = []
        combos = list(itertools.product(sorted(iseq.values()), range(6), (0, 1), (0, 1), (0, 1)))
        for (sq, a, sup, chg, abe) in combos:
            inits.append(g.make_state(seq=[sq], action=[a], supported=[sup], changed=[chg], abe=[abe],
                                      insane=[0], **{"$ret": [machine.NO_RETURN_YET]}))
        g.run(inits)
        # map every exit node back to its initial case by forward search per init
        for st in inits:
            start = (f.entry, st)
            seen = set()
            stack = [start]
            called = {}
            while stack:
                n = stack.pop()
                if n in seen:
                    continue
                seen.add(n)
                if n[0] == f.exit:
                    key = (inames[list(g.get(st, "seq"))[0]], list(g.get(st, "action"))[0],
                           list(g.get(st, "supported"))[0], list(g.get(st, "changed"))[0],
                           list(g.get(st, "abe"))[0], rnames[cr])
                    rv = g.get(n[1], "$ret")
                    ip, op = g.get(n[1], "in_pos"), g.get(n[1], "out_pos")
                    was_called = (ip is not None and op is not None)
                    out = (tuple(sorted(rnames.get(v, str(v)) for v in (rv or ()))),
                           tuple(sorted(inames.get(v, str(v)) for v in (g.get(n[1], "seq") or ()))),
                           tuple(sorted(g.get(n[1], "abe") or ())),
                           tuple(sorted(ip)) if ip is not None else None,
                           tuple(sorted(op)) if op is not None else None)
                    table.setdefault(key, set()).add(out)
                    continue
                for (d, l) in g.succ.get(n, ()):
                    stack.append(d)
        ncases += len(inits)
    return f, table, anames, ncases


def check_fsm(ck, prog):
    ck.rule("C11-FSM", "transition relation of lzma_code() extracted by exhaustive finite-domain evaluation "
            "(sequence x action x supported x avail_in-changed x allow_buf_error x coder return x progress) "
            "equals spec/protocol.py")
    f, table, anames, ncases = derive(prog)
    ck.saw_function(f)
    bad = {}
    groups = {}
    total = 0
    for key, outs in sorted(table.items()):
        seq, a, sup, chg, abe, cr = key
        aname = anames.get(a, "<out of range>")
        pre = P.before_call(seq, aname, bool(sup), bool(chg))
        gname = "%s/%s" % (seq, "call" if pre[0] == "call" else pre[1])
        groups.setdefault(gname, 0)
        for out in outs:
            total += 1
            groups[gname] += 1
            rv, sq2, abe2, ip, op = out
            errs = []
            if pre[0] == "return":
                if rv != (pre[1],):
                    errs.append("returns %s, spec %s without calling the coder" % (rv, pre[1]))
                if sq2 != (seq,):
                    errs.append("sequence becomes %s, spec unchanged %s" % (sq2, seq))
            else:
                if ip is None or op is None or len(ip) != 1 or len(op) != 1:
                    # exit before the call although the spec says the coder is called
                    errs.append("returns %s before calling the coder, spec: call" % (rv,))
                else:
                    progress = bool(ip[0] or op[0])
                    want = P.after_call(pre[1], cr, progress, bool(abe))
                    if rv != (want[0],):
                        errs.append("returns %s, spec %s" % (rv, want[0]))
                    if sq2 != (want[1],):
                        errs.append("sequence becomes %s, spec %s" % (sq2, want[1]))
                    if abe2 != (int(want[2]),):
                        errs.append("allow_buf_error becomes %s, spec %s" % (abe2, int(want[2])))
            if errs:
                bad.setdefault(gname, []).append((key, out, errs))
    for gname, n in sorted(groups.items()):
        b = bad.get(gname)
        ck.ob("C11-FSM", gname, not b, common.where(f),
              "%d abstract cases agree with the protocol" % n if not b else
              "state %s action %s supported=%d avail_in_changed=%d allow_buf_error=%d coder returns %s: %s "
              "(%d cases differ)" % (b[0][0][0], anames.get(b[0][0][1], b[0][0][1]), b[0][0][2], b[0][0][3],
                                     b[0][0][4], b[0][0][5], "; ".join(b[0][2]), len(b)),
              key="FSM:" + gname)
    ck.extra["fsm_cases"] = total
    ck.exhaustive = True
    if total < 5000:
        raise AnalysisBroken("C11-FSM: only %d abstract cases derived" % total)
    ck.floor("C11-FSM", 8)


def check_acc(ck, prog):
    ck.rule("C11-ACC", "next_X/avail_X/total_X are updated together by exactly the position the coder "
            "advanced, positions start at 0 and are passed by address; internal->avail_in refreshed after the call")
    f = prog.fn("lzma_code", "/common.c")
    for X, pos in (("in", "in_pos"), ("out", "out_pos")):
        upd = {}
        for b, i, e in f.iter_elems():
            for (l, r, op, node) in ex.writes(e):
                fk = ex.field_key(l)
                if fk and fk[0] == "lzma_stream" and fk[1] in ("next_" + X, "avail_" + X, "total_" + X):
                    upd[fk[1]] = (op, ex.show(r), b.id)
        want = {"next_" + X: "+=", "avail_" + X: "-=", "total_" + X: "+="}
        ok = all(k in upd and upd[k][0] == want[k] and upd[k][1] == pos for k in want) and \
            len({upd[k][2] for k in want if k in upd}) == 1
        ck.ob("C11-ACC", "accounting:" + X, ok, common.where(f),
              "strm->next_%s += / avail_%s -= / total_%s += %s in one block: %s" % (
                  X, X, X, pos, {k: v[:2] for k, v in upd.items()}), key="ACC:accounting:" + X)
        # guarded by pos > 0
        blk = upd.get("next_" + X, (None, None, None))[2]
        g_ok = False
        if blk is not None:
            for p in f.blocks[blk].preds:
                t = f.blocks[p].term
                if t and "cond" in t:
                    c = ex.strip(t["cond"])
                    if c.get("k") == "bin" and c["op"] == ">" and ex.show(c["l"]) == pos and ex.is_const(c["r"], 0) \
                            and f.blocks[p].succs[0] == blk:
                        g_ok = True
        ck.ob("C11-ACC", "guard:" + X, g_ok, common.where(f), "update guarded by `%s > 0`" % pos,
              key="ACC:guard:" + X)
        # initialised to 0 and passed by address to the coder
        init0 = any(e.get("k") == "decl" and e["n"] == pos and ex.is_const(e.get("init"), 0)
                    for b, i, e in f.iter_elems())
        passed = False
        for b, i, e in f.iter_elems():
            for c in ex.calls(e, into_refs=False):
                if not c.get("fn") and any(ex.show(a) == "&" + pos for a in c["args"]):
                    passed = True
        ck.ob("C11-ACC", "position:" + X, init0 and passed, common.where(f),
              "%s starts at 0 and &%s is passed to next.code" % (pos, pos), key="ACC:position:" + X)
    # internal->avail_in refreshed on every path from the call to the return
    call_blocks = [b.id for b, i, e in f.iter_elems() if any(not c.get("fn") for c in ex.calls(e, into_refs=False))]

    def via(bb, ii, ee):
        for (l, r, op, node) in ex.writes(ee):
            fk = ex.field_key(l)
            if fk and fk[0] == "lzma_internal_s" and fk[1] == "avail_in" and r is not None \
                    and ex.field_key(r) == ("lzma_stream", "avail_in"):
                return True
        return False
    ok, path = cfg.must_pass(f, [s for cb in call_blocks for s in cfg.succs(f, cb)], [f.exit], via)
    ck.ob("C11-ACC", "avail_in-refreshed", ok and bool(call_blocks), common.where(f),
          "strm->internal->avail_in = strm->avail_in on every path after the coder call", key="ACC:refresh")
    ck.floor("C11-ACC", 7)


def check_act(ck, prog):
    ck.rule("C11-ACT", "supported actions enabled by each public initialiser equal the documented set; "
            "lzma_strm_init clears the array and resets the sequence")
    seen = set()
    for f in sorted(prog.all_functions("liblzma"), key=lambda f: f.name):
        acts = set()
        for b, i, e in f.iter_elems():
            for (l, r, op, node) in ex.writes(e):
                ls = ex.strip(l)
                if ls is not None and ls.get("k") == "idx" and r is not None and ex.is_const(r, 1):
                    bs = ex.strip(ls["b"])
                    if bs is not None and bs.get("k") == "mem" and bs["f"] == "supported_actions":
                        acts.add((ex.strip(ls["i"]) or {}).get("n"))
        if not acts:
            continue
        ck.saw_function(f)
        seen.add(f.name)
        want = P.SUPPORTED.get(f.name)
        ck.ob("C11-ACT", f.name, want is not None and acts == want, common.where(f),
              "%s enables %s%s" % (f.name, ",".join(sorted(acts)),
                                   "" if acts == want else " — documented: %s" % (
                                       ",".join(sorted(want)) if want else "function not in the table")),
              key="ACT:" + f.name)
    for name in sorted(set(P.SUPPORTED) - seen):
        ck.ob("C11-ACT", name, False, "liblzma", "%s no longer enables any action" % name, key="ACT:" + name)
    g = prog.fn("lzma_strm_init", "/common.c")
    ck.saw_function(g)
    clears = any(c.get("fn") in ("memzero", "memset") and any(
        x.get("k") == "mem" and x["f"] == "supported_actions" for x in ex.walk(c["args"][0]))
        for b, i, e in g.iter_elems() for c in ex.calls(e, into_refs=False))
    resets = {}
    for b, i, e in g.iter_elems():
        for (l, r, op, node) in ex.writes(e):
            fk = ex.field_key(l)
            if fk and fk[1] in ("sequence", "allow_buf_error", "total_in", "total_out") and r is not None:
                resets[fk[1]] = ex.show(r)
    ok = clears and resets == {"sequence": "ISEQ_RUN", "allow_buf_error": "0", "total_in": "0", "total_out": "0"}
    ck.ob("C11-ACT", "lzma_strm_init", ok, common.where(g),
          "lzma_strm_init clears supported_actions=%s and resets %s" % (clears, resets), key="ACT:strm_init")
    ck.floor("C11-ACT", 18)


OUT_EXCEPT = {
    ("block_encode_uncompressed", "out"): "single-call encoder: the caller (block_buffer_encode) compared out_size - *out_pos "
                                          "with lzma_block_buffer_bound(in_size) first (arithmetic argument, see C02)",
    ("block_buffer_encode", "out"): "single-call encoder: writes Block Padding after `out_size - *out_pos` was reduced to a "
                                    "multiple of four and compared with the bound (arithmetic argument)",
}


def check_out_idx(ck, prog):
    """`never touches memory outside the two buffers it was given`: every streaming store out[*out_pos] of the
    resumable encoders is preceded on every path by the test *out_pos < out_size (E-AVAIL, same engine as C04-IDX for
    the input side)."""
    from sa import avail
    from . import C04
    ck.rule("C11-OUTIDX", "bounds fact *out_pos < out_size available at every out[*out_pos] store of the streaming encoders")
    n = 0
    saved = C04.IDX_BUFFERS
    C04.IDX_BUFFERS = ("out",)
    try:
        for f in sorted(prog.all_functions("liblzma"), key=lambda f: (f.file, f.line)):
            ts = C04.discover_triples(f)
            if not ts:
                continue
            ck.saw_function(f)
            g = C04.graph_of(prog, f)
            for t in ts:
                bad, nuses = avail.solve(g, t)
                n += nuses
                exc = OUT_EXCEPT.get((f.name, t.buf))
                if not bad:
                    ck.ob("C11-OUTIDX", "%s:%s" % (f.name, t.buf), True, common.where(f),
                          "%d store(s) out[*out_pos] all dominated by *out_pos < out_size on every path" % nuses,
                          key="OUTIDX:%s" % f.name)
                    continue
                (blk, i, u) = bad[0]
                ck.ob("C11-OUTIDX", "%s:%s" % (f.name, t.buf), exc is not None, common.where(f, u),
                      ("exception: " + exc) if exc else
                      "%s is written in %s() on a path where `*out_pos < out_size` has not been established since the "
                      "position last changed: for some output split one byte is written past the caller's buffer and "
                      "avail_out wraps" % (ex.show(u), f.name), key="OUTIDX:%s" % f.name)
    finally:
        C04.IDX_BUFFERS = saved
    if n < 10:
        raise AnalysisBroken("C11-OUTIDX: only %d streaming stores found" % n)


def check_restore(ck, prog):
    """The single-call functions save `*in_pos` / `*out_pos` on entry and restore them when they fail ("positions are not
    modified on error").  The restoring store has to be the LAST use of the position in the call: a later read sees the
    start value, not where coding stopped -- e.g. the test "all input consumed => truncated input (LZMA_DATA_ERROR), else
    output too small (LZMA_BUF_ERROR)" then classifies every truncated file as LZMA_BUF_ERROR (and the assertion next to
    it fails in builds with assertions)."""
    ck.rule("C11-RESTORE", "after a single-call function restored a position parameter, the position is not read again")
    n = 0
    for f in sorted(prog.all_functions("liblzma"), key=lambda f: (f.file, f.line)):
        if not f.blocks:
            continue
        params = {v["n"] for v in f.vars if v.get("param")}
        saved = {}
        for b, i, e in f.iter_elems():
            e_ = ex.deref(e)
            if e_.get("k") == "decl" and e_.get("init") is not None:
                i0 = ex.strip(e_["init"])
                if i0 is not None and i0.get("k") == "un" and i0["op"] == "*" and ex.strip(i0["e"]).get("k") == "var" \
                        and ex.strip(i0["e"])["n"] in params:
                    saved[e_["n"]] = ex.strip(i0["e"])["n"]
        if not saved:
            continue
        for b, i, e in f.iter_elems():
            for (l, r, op, nd) in ex.writes(e):
                ls = ex.strip(l)
                rs = ex.strip(r) if r is not None else None
                if not (ls is not None and ls.get("k") == "un" and ls["op"] == "*" and rs is not None and rs.get("k") == "var"
                        and rs["n"] in saved and ex.show(ls["e"]) == saved[rs["n"]] and op == "="):
                    continue
                P = saved[rs["n"]]
                after = cfg.reachable(f, [y for y in b.succs if y is not None])
                bad = None
                for bb, ii, ee in f.iter_elems():
                    if not ((bb.id == b.id and ii > i) or (bb.id in after and bb.id != b.id)):
                        continue
                    wl = {id(ex.strip(l2)) for (l2, r2, o2, n2) in ex.writes(ee)}
                    for x in ex.walk(ee):
                        if x.get("k") == "un" and x["op"] == "*" and ex.show(x["e"]) == P and id(x) not in wl:
                            bad = bad or x
                    for c in ex.calls(ee, into_refs=False):
                        if any(ex.show(a) == P for a in c["args"]):
                            bad = bad or c
                n += 1
                ck.saw_function(f)
                ck.ob("C11-RESTORE", "%s:%s" % (f.name, P), bad is None, common.where(f, bad or nd),
                      "%s: `%s` is the last use of *%s" % (f.name, ex.show(nd), P) if bad is None else
                      "%s(): *%s is restored to its start value at line %s and read again at line %s (`%s`): the test sees the "
                      "start position instead of where coding stopped, so the failure is classified wrongly (a truncated "
                      "input is reported as LZMA_BUF_ERROR \"output buffer too small\")" % (
                          f.name, P, ex.line(nd), ex.line(bad), ex.show(bad)[:40]), key="RESTORE:%s:%s" % (f.name, P))
    ck.floor("C11-RESTORE", 8)


UNINIT_EXCEPT = {
    "lzma_get_check": "check.h: may be called only immediately after lzma_code() returned LZMA_NO_CHECK, "
                      "LZMA_UNSUPPORTED_CHECK or LZMA_GET_CHECK; any other call is documented as undefined behaviour",
}


def check_uninit(ck, prog):
    """The handle may be passed to every lzma_stream function as soon as it holds LZMA_STREAM_INIT, i.e. with
    strm->internal == NULL ("at least initialized with LZMA_STREAM_INIT"): a public function that reads through
    strm->internal must have tested it (or allocated it with lzma_strm_init) on every path to that read."""
    ck.rule("C11-UNINIT", "in every public function taking an lzma_stream, each access through strm->internal is "
            "preceded on every path by a NULL test of strm->internal or by lzma_strm_init()")
    n = 0
    for f in sorted(prog.all_functions("liblzma"), key=lambda f: (f.file, f.line)):
        if not f.blocks or f.static:
            continue
        sp = [v["n"] for v in f.vars if v.get("param") and v.get("prec") == "lzma_stream"]
        if not sp:
            continue
        for P in sp:
            base = "%s->internal" % P

            def through(e):
                for x in ex.walk(e, into_refs=False):
                    if x.get("k") == "mem" and x.get("b") is not None and ex.show(ex.strip(x["b"])).startswith(base):
                        return x
                return None
            sites = []
            for b, i, e in f.iter_elems():
                x = through(e)
                if x is not None:
                    sites.append((b.id, i, e, x))
            for bid, blk in f.blocks.items():
                if blk.term and "cond" in blk.term:
                    x = through(blk.term["cond"])
                    if x is not None and not any(s[0] == bid for s in sites):
                        sites.append((bid, len(blk.elems), blk.term["cond"], x))
            if not sites:
                continue
            # blocks after which the handle is known to be allocated
            def null_test(blk):
                """-> index of the successor on which strm->internal is non-NULL, or None"""
                t = blk.term
                if not t or "cond" not in t or len(blk.succs) != 2:
                    return None
                c = ex.strip(t["cond"])
                if c is None:
                    return None
                if c.get("k") == "bin" and c["op"] in ("==", "!="):
                    l, r = ex.strip(c["l"]), ex.strip(c["r"])
                    for a, z in ((l, r), (r, l)):
                        if ex.show(a) == base and ex.is_const(z, 0):
                            return 1 if c["op"] == "==" else 0
                if c.get("k") == "un" and c["op"] == "!" and ex.show(ex.strip(c["e"])) == base:
                    return 1
                if ex.show(c) == base:
                    return 0
                return None
            seen = set()
            st = [(f.entry, 0)]
            reach = {}          # block -> smallest element index reachable unguarded
            while st:
                bid, _ = st.pop()
                if bid in seen or bid is None:
                    continue
                seen.add(bid)
                blk = f.blocks[bid]
                stop_at = None
                for i, e in enumerate(blk.elems):
                    if any(c.get("fn") == "lzma_strm_init" for c in ex.calls(e, into_refs=False)):
                        stop_at = i
                        break
                reach[bid] = stop_at if stop_at is not None else len(blk.elems) + 1
                if stop_at is not None:
                    continue
                safe = null_test(blk)
                for k, sx in enumerate(blk.succs):
                    if sx is None or (safe is not None and k == safe):
                        continue
                    st.append((sx, 0))
            for (bid, i, e, x) in sorted(sites, key=lambda s: (s[0], s[1])):
                n += 1
                bad = bid in reach and i < reach[bid]
                if f.name in UNINIT_EXCEPT:
                    ck.ob("C11-UNINIT", "%s:%s@B%d" % (f.name, ex.show(x)[:40], bid), True, common.where(f, e),
                          "exception: " + UNINIT_EXCEPT[f.name], key="UNINIT:%s:%s" % (f.name, x["f"]))
                    continue
                # a test of strm->internal inside the same condition (a && b) is split by the CFG, so this is exact
                ck.ob("C11-UNINIT", "%s:%s@B%d" % (f.name, ex.show(x)[:40], bid), not bad, common.where(f, e),
                      "%s(): `%s` is read only after %s was tested / allocated" % (f.name, ex.show(x)[:60], base) if not bad else
                      "%s(): `%s` is read on a path from the entry on which %s was neither tested for NULL nor allocated by "
                      "lzma_strm_init(): a handle that holds LZMA_STREAM_INIT (or was ended with lzma_end) makes the "
                      "function dereference NULL instead of returning LZMA_PROG_ERROR" % (f.name, ex.show(x)[:60], base),
                      key="UNINIT:%s:%s" % (f.name, x["f"]))
    ck.floor("C11-UNINIT", 20)
    return n


def check_timeout(ck, prog):
    """A threaded coder that gave up waiting because lzma_mt.timeout expired must say so (LZMA_TIMED_OUT): lzma_code()
    turns that into LZMA_OK *without* counting the call as "no progress".  Returning LZMA_OK directly makes two
    consecutive timeouts look like a stalled caller and lzma_code() answers LZMA_BUF_ERROR although the workers are busy."""
    ck.rule("C11-TIMEOUT", "a timed-out wait of the threaded coders is reported as LZMA_TIMED_OUT to lzma_code()")
    rets = common.lzma_ret(prog)
    n = 0
    # encoder: `if (wait_for_work(...)) return LZMA_TIMED_OUT;`
    f = prog.fn("stream_encode_mt", "stream_encoder_mt.c")
    ck.saw_function(f)
    for b in f.blocks.values():
        t = b.term
        if not t or "cond" not in t or len(b.succs) != 2:
            continue
        if not any(c.get("fn") == "wait_for_work" for c in ex.calls(t["cond"])):
            continue
        n += 1
        x, val, seen = b.succs[0], None, set()
        while x is not None and x not in seen:
            seen.add(x)
            blk = f.blocks[x]
            r = [ex.deref(e) for e in blk.elems if e is not None and ex.deref(e).get("k") == "ret"]
            if r:
                val = ex.const_val(r[0].get("e")) if r[0].get("e") is not None else None
                break
            nx = [y for y in blk.succs if y is not None]
            x = nx[0] if len(nx) == 1 else None
        ok = val == rets["LZMA_RET_INTERNAL1"]
        ck.ob("C11-TIMEOUT", "stream_encode_mt:wait_for_work", ok, common.where(f, t["cond"]),
              "stream_encode_mt: a timed-out wait_for_work() returns LZMA_TIMED_OUT" if ok else
              "stream_encode_mt(): when wait_for_work() reports a timeout the function returns %s instead of LZMA_TIMED_OUT: "
              "lzma_code() counts the call as `no progress` and the second timeout in a row becomes LZMA_BUF_ERROR although "
              "the worker threads are still encoding" % ([k for k, v in rets.items() if v == val] or [val])[0],
              key="TIMEOUT:stream_encode_mt")
    # decoder: the non-zero edge of mythread_cond_timedwait() stores LZMA_TIMED_OUT into the value that is returned
    g = prog.fn("read_output_and_wait", "stream_decoder_mt.c")
    ck.saw_function(g)
    for b in g.blocks.values():
        t = b.term
        if not t or "cond" not in t or len(b.succs) != 2:
            continue
        if not any(c.get("fn") == "mythread_cond_timedwait" for c in ex.calls(t["cond"])):
            continue
        n += 1
        tb = g.blocks.get(b.succs[0])
        stored = [ex.const_val(r) for e in (tb.elems if tb else []) if e is not None for (l, r, op, node) in ex.writes(e)
                  if r is not None and ex.show(ex.strip(l)) == "ret"]
        ok = rets["LZMA_RET_INTERNAL1"] in stored
        ck.ob("C11-TIMEOUT", "read_output_and_wait:timedwait", ok, common.where(g, t["cond"]),
              "read_output_and_wait: a timed-out wait sets ret = LZMA_TIMED_OUT" if ok else
              "read_output_and_wait(): the timed-out edge of mythread_cond_timedwait() does not store LZMA_TIMED_OUT into ret",
              key="TIMEOUT:read_output_and_wait")
    if n < 2:
        raise AnalysisBroken("C11-TIMEOUT: the two timed waits of the threaded coders were not found (%d)" % n)
    # and lzma_code() maps LZMA_TIMED_OUT to LZMA_OK without touching allow_buf_error is part of C11-FSM


def check_no_input_progress(ck, prog, rule="C11-NOINPUT"):
    """lzma2_decode(): in SEQ_LZMA the LZMA decoder can still produce output when every compressed byte of the chunk has been
    read (a match is waiting for room in the dictionary).  The loop `while (*in_pos < in_size || coder->sequence == SEQ_LZMA)`
    therefore has to be entered in SEQ_LZMA whatever else holds: the true edge of the SEQ_LZMA test leads to the dispatch
    without another condition.  Otherwise a call with no input and fresh output space makes no progress and the second one
    gets LZMA_BUF_ERROR although decodable data is pending."""
    ck.rule(rule, "lzma2_decode: with no input left, the decoding loop is entered whenever the state is SEQ_LZMA (no further condition)")
    f = prog.fn("lzma2_decode", "lzma2_decoder.c")
    ck.saw_function(f)
    sw = [b.id for b in f.blocks.values() if b.term and b.term.get("kind") == "SwitchStmt"]
    tests = [b for b in f.blocks.values() if b.term and "cond" in b.term and len(b.succs) == 2
             and b.term.get("kind") in ("WhileStmt", "BinaryOperator", "ForStmt")
             and ex.show(ex.strip(b.term["cond"])).replace("(", "").replace(")", "") == "coder->sequence == SEQ_LZMA"]
    if not sw or not tests:
        raise AnalysisBroken("lzma2_decode: loop test `coder->sequence == SEQ_LZMA` / switch not found")
    bad = None
    for tb in tests:
        x, hops = tb.succs[0], 0
        while x is not None and x not in sw and hops < 8:
            b = f.blocks[x]
            if len([y for y in b.succs if y is not None]) != 1:
                bad = b
                break
            x, hops = b.succs[0], hops + 1
        if x not in sw and bad is None:
            bad = f.blocks[tb.id]
    ck.ob(rule, "lzma2_decode", bad is None, common.where(f, bad.term.get("cond") if bad is not None and bad.term else None),
          "lzma2_decode: `coder->sequence == SEQ_LZMA` alone keeps the loop running when the input is used up" if bad is None else
          "lzma2_decode(): with *in_pos == in_size the loop is entered in SEQ_LZMA only if `%s` also holds: when the LZMA decoder "
          "has read the whole chunk but still has output pending (dictionary was full), a call with avail_in == 0 makes no "
          "progress and the next one returns LZMA_BUF_ERROR although data can be produced" % (
              ex.show(bad.term["cond"]) if bad is not None and bad.term and "cond" in bad.term else "?"),
          key="NOINPUT:lzma2_decode")


def run(ck):
    ck.explanation = (
        "The transition relation of lzma_code() is extracted by exhaustive finite-domain abstract evaluation "
        "of its CFG over (internal sequence x action incl. out-of-range x supported flag x avail_in changed x "
        "allow_buf_error x every lzma_ret the coder can return x progress/no progress) and compared with the "
        "protocol written from base.h; accounting updates and per-initialiser action sets are checked structurally.")
    ck.not_decided = "that lzma_code never touches memory outside the two buffers (coder-internal bounds)."
    prog = common.program(ck, ("liblzma",))
    check_fsm(ck, prog)
    check_acc(ck, prog)
    check_act(ck, prog)
    check_out_idx(ck, prog)
    check_restore(ck, prog)
    check_uninit(ck, prog)
    check_timeout(ck, prog)
    check_no_input_progress(ck, prog)
    # "never touches memory outside the two buffers": bounds fact at every buf[pos] access (rule shared with C04)
    from . import C04 as _C04
    _C04.check_idx(ck, prog)
    # "use ... after a failed initialisation returns the programming-error code instead of acting": a failed public
    # initialiser leaves no coder from an earlier session behind (rule shared with C10)
    from . import C10 as _C10
    ck.rule("C11-INITFAIL", "public initialisers: no error return before the handle is (re)initialised, unless lzma_end(strm) precedes it")
    _C10.check_init_fail_frees(ck, prog, rule="C11-INITFAIL")
    # LZMA_BUF_ERROR is produced by lzma_code() only (second no-progress call), never by a coder (rule shared with C04)
    from . import C04
    C04.check_ret(ck, prog)
