"""C18 — the command-line tools deliver exactly the library's decoding (structural clauses).

C18-WBF    write-before-fail: decoded bytes pending in the output buffer are written before a
           decoder error is reported (xz coder_normal; xzdec and lzmadec uncompress()).
C18-EXIT   exit status: xzdec/lzmadec leave uncompress() normally only with LZMA_STREAM_END (lzmadec:
           and no trailing garbage), all other outcomes reach exit(EXIT_FAILURE); xz: message_error
           sets E_ERROR, message_warning E_WARNING, only LZMA_UNSUPPORTED_CHECK is a warning.
C18-SPARSE provenance rules of the sparse-file optimisation in io_write / io_close / io_open_dest_real.
C18-FMT    decoder flags built in coder_init (CONCATENATED unless --single-stream, ignore-check,
           tell-unsupported-check).
"""
from sa import ex, cfg, fd, guard, machine
from sa.compdb import AnalysisBroken
from . import common
from .C17 import graph, call_blocks

FIO = "file_io.c"


def check_lzmadec_trailing(ck, prog, rule="C18-EXIT"):
    f = prog.fn("uncompress", "xzdec.c", target="lzmadec")
    ck.saw_function(f)
    gs = guard.find_cmp(f, "field:avail_in", "const:0")
    fr = guard.find_cmp(f, "call:fread", "const:0")
    fe = guard.find_test(f, "call:feof", "T")
    ok = bool(gs) and bool(fr) and bool(fe)
    ck.ob(rule, "lzmadec:trailing-garbage", ok, common.where(f),
          "lzmadec checks avail_in == 0, fread() == 0 and feof() before accepting LZMA_STREAM_END" if ok else
          "lzmadec's uncompress(): LZMA_STREAM_END is accepted without all three of `strm->avail_in == 0`, a further fread() "
          "returning 0 and feof(): feof() alone is true only after a read hit the end, so a .lzma file that ends exactly at a "
          "buffer boundary is rejected, or bytes after the stream go unnoticed (found: avail_in %s, fread %s, feof %s)" % (
              bool(gs), bool(fr), bool(fe)), key="EXIT:lzmadec:trailing")


def check_xzdec(ck, prog, target):
    f = prog.fn("uncompress", "xzdec.c", target=target)
    ck.saw_function(f)
    rets = prog.enum("lzma_ret")
    OK, END = rets["LZMA_OK"], rets["LZMA_STREAM_END"]
    kr = fd.Key("var", "ret", domain=rets.values(), label="ret")
    g = graph(prog, f, [kr], [{}])
    code_calls = call_blocks(f, "lzma_code")
    if not code_calls:
        raise AnalysisBroken("%s uncompress: lzma_code call vanished" % target)
    cb, ci, cc = code_calls[0]
    fw = {b.id for (b, i, c) in call_blocks(f, "fwrite")}
    exits = {b.id for (b, i, c) in call_blocks(f, "exit")} | {f.exit}
    # product nodes right after lzma_code with ret != OK
    starts = []
    for n in g.nodes:
        if n[0] == cb.id:
            for (d, l) in g.succ.get(n, ()):
                v = g.get(d[1], "ret")
                if v is not None and OK not in v:
                    starts.append(d)
    seen = set()
    st = list(starts)
    bad = None
    while st:
        x = st.pop()
        if x in seen or x[0] in fw:
            continue
        seen.add(x)
        if x[0] in exits and x not in starts:
            bad = x
            break
        for (d, l) in g.succ.get(x, ()):
            st.append(d)
    ck.ob("C18-WBF", "%s:write-before-fail" % target, bool(starts) and bad is None, common.where(f),
          "after lzma_code() returned a non-OK code, every path to exit()/return passes the fwrite of the "
          "pending output" if bad is None else
          "%s can exit after a decoder error without writing the bytes already decoded" % target,
          key="WBF:%s" % target)
    # the write condition
    conds = [ex.show(b.term["cond"]) for b in f.blocks.values() if b.term and "cond" in b.term]
    okc = "strm->avail_out == 0" in conds and "ret != LZMA_OK" in conds
    ck.ob("C18-WBF", "%s:write-cond" % target, okc, common.where(f),
          "output is written when the buffer is full or ret != LZMA_OK", key="WBF:%s:cond" % target)
    # normal return only with STREAM_END
    vals = set()
    nret = 0
    for b, i, e in cfg.returns(f):
        nret += 1
        for s in g.states_before_elem(b.id, i):
            v = g.get(s, "ret")
            vals |= set(v) if v is not None else set(rets.values())
    ck.ob("C18-EXIT", "%s:return-only-on-end" % target, nret >= 1 and vals == {END}, common.where(f),
          "uncompress() returns normally only with ret == LZMA_STREAM_END (%d return sites)" % nret
          if vals == {END} else "uncompress() can return normally with ret in %s" % sorted(
              k for k, v in rets.items() if v in vals), key="EXIT:%s:return-end" % target)
    # exit calls use EXIT_FAILURE
    args = {ex.show(c["args"][0]) for (b, i, c) in call_blocks(f, "exit")}
    ck.ob("C18-EXIT", "%s:exit-failure" % target, args == {"1"}, common.where(f),
          "every exit() in uncompress() uses EXIT_FAILURE (%s)" % sorted(args), key="EXIT:%s:failure" % target)
    # read and write failures exit
    for nm, pat in (("read-error", "call:ferror"), ("write-error", "call:fwrite")):
        gs = guard.find_test(f, pat, "F") if nm == "read-error" else guard.find_cmp(f, "call:fwrite", "var:write_size")
        ok = bool(gs)
        for x in gs:
            for n in g.nodes:
                if n[0] == x.bid:
                    fl = x.fail_label
                    # failing edge must reach an exit() block before anything else returns
                    st = [d for (d, l) in g.succ.get(n, ()) if l == fl]
                    seen = set()
                    while st:
                        y = st.pop()
                        if y in seen:
                            continue
                        seen.add(y)
                        if y[0] in {b.id for (b, i, c) in call_blocks(f, "exit")}:
                            continue
                        if y[0] == f.exit:
                            ok = False
                            continue
                        if y[0] == cb.id:
                            ok = False      # continues decoding after the failure
                            continue
                        for (d, l) in g.succ.get(y, ()):
                            st.append(d)
        ck.ob("C18-EXIT", "%s:%s" % (target, nm), ok, common.where(f),
              "%s leads to exit(EXIT_FAILURE)" % nm, key="EXIT:%s:%s" % (target, nm))
    if target == "lzmadec":
        check_lzmadec_trailing(ck, prog)
    if target == "xzdec":
        init = call_blocks(f, "lzma_stream_decoder")
        ok = bool(init) and ex.const_val(init[0][2]["args"][2]) == 0x08
        ck.ob("C18-EXIT", "xzdec:concatenated", ok, common.where(f),
              "xzdec decodes with LZMA_CONCATENATED (trailing garbage is a decoder error)", key="EXIT:xzdec:concat")


def check_xz(ck, prog):
    f = prog.fn("coder_normal", "coder.c", target="xz")
    ck.saw_function(f)
    rets = prog.enum("lzma_ret")
    ks = fd.Key("var", "success", domain=(0, 1), label="success")
    kr = fd.Key("var", "ret", domain=rets.values(), label="ret")
    kst = fd.Key("var", "stop", domain=(0, 1), label="stop")
    g = graph(prog, f, [ks, kr, kst], [{}])
    wr = {b.id for (b, i, c) in call_blocks(f, "coder_write_output")}
    me = {b.id for (b, i, c) in call_blocks(f, "message_error")}
    path, hit = guard.cut_reach(g, [n for n in g.nodes if n[0] == f.entry], set(),
                                lambda n: "message_error" if n[0] in me else None, cut_blocks=wr)
    ck.ob("C18-WBF", "xz:write-before-error", bool(me) and path is None, common.where(f),
          "message_error() for a decoder error is reachable only through coder_write_output()"
          if path is None else "xz can report a decoder error without first writing the decoded bytes",
          key="WBF:xz")
    # UNSUPPORTED_CHECK is the only warning
    mw = call_blocks(f, "message_warning")
    vals = set()
    for (b, i, c) in mw:
        for s in g.states_before_elem(b.id, i):
            v = g.get(s, "ret")
            vals |= set(v) if v is not None else set(rets.values())
    ck.ob("C18-EXIT", "xz:only-unsupported-check-warns", vals == {rets["LZMA_UNSUPPORTED_CHECK"]},
          common.where(f), "message_warning() in coder_normal only for ret == LZMA_UNSUPPORTED_CHECK (%s)" % sorted(
              k for k, v in rets.items() if v in vals), key="EXIT:xz:warn")
    vals = set()
    for (b, i, c) in call_blocks(f, "message_error"):
        for s in g.states_before_elem(b.id, i):
            v = g.get(s, "ret")
            vals |= set(v) if v is not None else set(rets.values())
    bad = vals & {rets["LZMA_OK"], rets["LZMA_UNSUPPORTED_CHECK"], rets["LZMA_STREAM_END"]}
    ck.ob("C18-EXIT", "xz:errors-are-errors", not bad, common.where(f),
          "message_error() in coder_normal is never reached with OK/STREAM_END/UNSUPPORTED_CHECK",
          key="EXIT:xz:errors")
    # message.c: error -> E_ERROR, warning -> E_WARNING
    for fn_, want in (("message_error", "E_ERROR"), ("message_warning", "E_WARNING"),
                      ("message_fatal", None)):
        m = prog.fn(fn_, "message.c", target="xz")
        ck.saw_function(m)
        got = [ex.show(c["args"][0]) for (b, i, c) in call_blocks(m, "set_exit_status")]
        if want:
            ck.ob("C18-EXIT", "xz:" + fn_, got == [want], common.where(m),
                  "%s() calls set_exit_status(%s)" % (fn_, got), key="EXIT:xz:" + fn_)
        else:
            te = [ex.show(c["args"][0]) for (b, i, c) in call_blocks(m, "tuklib_exit")]
            ck.ob("C18-EXIT", "xz:" + fn_, te == ["E_ERROR"], common.where(m),
                  "message_fatal() ends in tuklib_exit(%s)" % te, key="EXIT:xz:" + fn_)
    s_ = prog.fn("set_exit_status", "main.c", target="xz")
    ck.saw_function(s_)
    # never downgrade: a store of the new status is guarded by exit_status != E_ERROR
    gd = [b for b in s_.blocks.values() if b.term and "cond" in b.term and
          ex.show(b.term["cond"]) in ("exit_status != E_ERROR", "exit_status == E_ERROR")]
    ck.ob("C18-EXIT", "xz:no-downgrade", bool(gd), common.where(s_),
          "set_exit_status() never replaces E_ERROR", key="EXIT:xz:no-downgrade")


def check_sparse(ck, prog):
    ck.rule("C18-SPARSE", "sparse-file optimisation: skipped zero blocks are accounted exactly, holes are "
            "materialised by lseek before real data and by lseek(n-1)+1 byte at close; only for regular files in "
            "decompress mode positioned at the end")
    w = prog.fn("io_write", FIO, target="xz")
    ck.saw_function(w)
    adds = [(ex.show(n)) for b, i, e in w.iter_elems() for (l, r, op, n) in ex.writes(e)
            if ex.field_key(l) and ex.field_key(l)[1] == "dest_pending_sparse"]
    ck.ob("C18-SPARSE", "account-size", "pair->dest_pending_sparse += size" in adds and
          "pair->dest_pending_sparse = 0" in adds, common.where(w),
          "io_write: %s" % adds, key="SPARSE:account")
    # the += happens only for a full all-zero buffer
    dom = cfg.dominators(w)
    addb = [b.id for b, i, e in w.iter_elems() for (l, r, op, n) in ex.writes(e)
            if ex.field_key(l) and ex.field_key(l)[1] == "dest_pending_sparse" and op == "+="]
    g1 = guard.find_test(w, "call:is_sparse", "T")
    g2 = guard.find_cmp(w, "var:size", "const:8192")
    ok = bool(addb) and bool(g1) and bool(g2) and all(
        any(x.bid in dom.get(ab, ()) for x in g1) and any(x.bid in dom.get(ab, ()) for x in g2) for ab in addb)
    ck.ob("C18-SPARSE", "only-full-zero-block", ok, common.where(w),
          "a block is skipped only if size == IO_BUFFER_SIZE and is_sparse(buf)", key="SPARSE:full-zero")
    # lseek(dest_fd, pending, SEEK_CUR) precedes real data when pending > 0
    ls = call_blocks(w, "lseek")
    okl = bool(ls) and [ex.show(a) for a in ls[0][2]["args"]] == ["pair->dest_fd", "pair->dest_pending_sparse", "1"]
    ck.ob("C18-SPARSE", "hole-before-data", okl, common.where(w),
          "lseek(dest_fd, dest_pending_sparse, SEEK_CUR) before writing real data", key="SPARSE:hole")
    pg = graph(prog, w, [], [{}])
    wb = {b.id for (b, i, c) in call_blocks(w, "io_write_buf")}
    gp = guard.find_cmp(w, "field:dest_pending_sparse", "const:0", ops=(">",), rel_pass="F")
    cut = {(x.bid, x.pass_label) for x in gp}
    lsb = {b.id for (b, i, c) in ls}
    gt = guard.find_test(w, "field:dest_try_sparse", "F")
    cut |= {(x.bid, x.pass_label) for x in gt}
    path, hit = guard.cut_reach(pg, [n for n in pg.nodes if n[0] == w.entry], cut,
                                lambda n: "io_write_buf" if n[0] in wb else None, cut_blocks=lsb)
    ck.ob("C18-SPARSE", "hole-must-precede", bool(gp) and path is None, common.where(w),
          "with a pending hole, io_write_buf() is reachable only through the lseek()" if path is None else
          "real data can be written with a pending hole not yet skipped", key="SPARSE:hole-must")
    # the zero-length write that ends a stream must not materialise (and thereby forget) a pending hole:
    # io_close() needs dest_pending_sparse > 0 to create the trailing hole
    gz = guard.find_cmp(w, "var:size", "const:0")
    cutz = set()
    for x in gz:
        cutz.add((x.bid, "F" if x.pass_label == "T" else "T"))       # the size != 0 edge
    for x in g2:
        cutz.add((x.bid, x.pass_label))                               # the size == IO_BUFFER_SIZE edge
    pathz, hitz = guard.cut_reach(pg, [n for n in pg.nodes if n[0] == w.entry], cutz,
                                  lambda n: "lseek" if n[0] in lsb else None)
    okz = bool(gz) and pathz is None
    ck.ob("C18-SPARSE", "empty-write-keeps-hole", okz, common.where(w),
          "io_write(size == 0) returns before the pending hole is skipped with lseek(), so io_close() still sees "
          "dest_pending_sparse > 0 and creates the trailing hole" if okz else
          "io_write(): a zero-length write (end of the stream) reaches lseek(dest_pending_sparse) and clears the pending "
          "amount: io_close() then does not write the last byte and the file ends before its trailing zeros",
          key="SPARSE:empty-write")
    c = prog.fn("io_close", FIO, target="xz")
    lsc = call_blocks(c, "lseek")
    okc = bool(lsc) and ex.show(lsc[0][2]["args"][1]) == "pair->dest_pending_sparse - 1" and \
        ex.show(lsc[0][2]["args"][2]) == "1"
    wbc = call_blocks(c, "io_write_buf")
    okw = bool(wbc) and ex.const_val(wbc[0][2]["args"][2]) == 1
    ck.ob("C18-SPARSE", "tail", okc and okw, common.where(c),
          "at close: lseek(pending - 1, SEEK_CUR) then a one-byte write", key="SPARSE:tail")
    d = prog.fn("io_open_dest_real", FIO, target="xz")
    ck.saw_function(d)
    domd = cfg.dominators(d)
    sets = [b.id for b, i, e in d.iter_elems() for (l, r, op, n) in ex.writes(e)
            if ex.field_key(l) and ex.field_key(l)[1] == "dest_try_sparse" and ex.is_const(r, 1)]
    gm = guard.find_cmp(d, "var:opt_mode", "enum:MODE_DECOMPRESS")
    ok = bool(sets) and bool(gm) and all(any(x.bid in domd.get(sb, ()) for x in gm) for sb in sets)
    ck.ob("C18-SPARSE", "decompress-only", ok, common.where(d),
          "dest_try_sparse = true only in decompress mode", key="SPARSE:decompress-only")
    # for stdout: regular file and positioned at the end (or O_APPEND handled)
    gr = [b for b in d.blocks.values() if b.term and "cond" in b.term and "61440" in ex.show(b.term["cond"])
          and "32768" in ex.show(b.term["cond"])]
    ge = guard.find_cmp(d, "call:lseek", "field:st_size")
    ck.ob("C18-SPARSE", "stdout-regular-at-end", bool(gr) and bool(ge), common.where(d),
          "stdout: S_ISREG test and lseek(SEEK_CUR) == st_size test present", key="SPARSE:stdout")
    # O_APPEND restored
    cd = prog.fn("io_close_dest", FIO, target="xz")
    rest = any(c.get("fn") == "fcntl" and ex.show(c["args"][2]) == "stdout_flags"
               for b, i, e in cd.iter_elems() for c in ex.calls(e, into_refs=False))
    ck.ob("C18-SPARSE", "append-restored", rest, common.where(cd),
          "io_close_dest restores the original stdout flags (O_APPEND)", key="SPARSE:append")
    ck.floor("C18-SPARSE", 8)


XZ_DECODER_FLAGS = {0x02: "LZMA_TELL_UNSUPPORTED_CHECK", 0x08: "LZMA_CONCATENATED", 0x10: "LZMA_IGNORE_CHECK"}


def check_is_sparse(ck, prog, rule="C18-SPARSE"):
    """is_sparse() decides that a whole output buffer may be replaced by a hole: it must look at EVERY word.  The loop
    advances i by a constant step k and reads buf->u64[i + c] for constants c: the set of c has to be {0 .. k-1} and the
    bound the full array length, otherwise non-zero bytes in an unexamined word are silently turned into zeros in sparse
    output (but not in piped output)."""
    f = prog.fn("is_sparse", FIO, target="xz")
    ck.saw_function(f)
    step = None
    for b, i, e in f.iter_elems():
        e_ = ex.deref(e)
        if e_.get("k") == "un" and e_.get("op") in ("pre++", "post++") and ex.show(e_["e"]) == "i":
            step = 1
        for (l, r, op, n) in ex.writes(e):
            if ex.show(l) == "i" and op == "+=" and ex.const_val(r) is not None:
                step = ex.const_val(r)
    import re
    dims = {}
    for rn, rec in prog.records.items():
        if "io_buf" in rn:
            for fd_ in rec["fields"]:
                m = re.search(r"\[(\d+)\]", fd_.get("ty") or "")
                if m and fd_["n"] in ("u8", "u32", "u64"):
                    dims[fd_["n"]] = (int(m.group(1)), {"u8": 1, "u32": 4, "u64": 8}[fd_["n"]])
    if "u64" not in dims:
        raise AnalysisBroken("io_buf: member u64 not found")
    total = dims["u64"][0] * 8
    reads = []          # (member, offset)
    other = None
    for b in f.blocks.values():
        for x in [y for e in b.elems if e is not None for y in ex.walk(e, into_refs=False)] + \
                ([y for y in ex.walk(b.term["cond"])] if b.term and "cond" in b.term else []):
            if x.get("k") == "idx" and ex.strip(x["b"]) is not None and ex.strip(x["b"]).get("k") == "mem" and \
                    ex.strip(x["b"]).get("f") in dims:
                ix = ex.strip(x["i"])
                mem = ex.strip(x["b"])["f"]
                if ix.get("k") == "var" and ix["n"] == "i":
                    reads.append((mem, 0))
                elif ix.get("k") == "bin" and ix["op"] == "+" and ex.show(ix["l"]) == "i" and ex.const_val(ix["r"]) is not None:
                    reads.append((mem, ex.const_val(ix["r"])))
                else:
                    other = x

    def cval(n):
        v = ex.const_val(n)
        if v is not None:
            return v
        n = ex.strip(n)
        if n is not None and n.get("k") == "var":
            for b, i_, e in f.iter_elems():
                d = ex.deref(e)
                if d.get("k") == "decl" and d["n"] == n["n"] and d.get("init") is not None:
                    return ex.const_val(d["init"])
        return None
    bound = None
    for b in f.blocks.values():
        if b.term and "cond" in b.term:
            c = ex.strip(b.term["cond"])
            if c.get("k") == "bin" and c["op"] == "<" and ex.show(c["l"]) == "i" and cval(c["r"]) is not None:
                bound = cval(c["r"])
    if step is None or not reads or other is not None or bound is None or step <= 0:
        raise AnalysisBroken("is_sparse: loop shape not recognised (step %s, reads %d, bound %s)" % (step, len(reads), bound))
    covered = bytearray(total)
    over = None
    for i0 in range(0, bound, step):
        for mem, c_ in reads:
            w_ = dims[mem][1]
            lo = (i0 + c_) * w_
            if lo + w_ > total:
                over = (mem, i0 + c_)
                continue
            for k_ in range(lo, lo + w_):
                covered[k_] = 1
    missing = [k_ for k_ in range(total) if not covered[k_]]
    ok = not missing and over is None
    ck.ob(rule, "is-sparse-covers-buffer", ok, common.where(f),
          "is_sparse: step %d, reads %s, bound %d: all %d bytes of the buffer are examined" % (step, sorted(set(reads)), bound, total) if ok else
          ("is_sparse(): the loop (i < %d, step %d) examines %s: bytes %d..%d of the %d-byte buffer are never looked at (%d bytes in all); "
           "non-zero data there is written as a hole, i.e. as zeros, when the output is a sparse-capable regular file, while a pipe "
           "gets the real bytes" % (bound, step, sorted(set("%s[i+%d]" % r_ for r_ in reads)), missing[0],
                                    next((k_ - 1 for k_ in range(missing[0], total) if covered[k_]), total - 1), total, len(missing)))
          if missing else "is_sparse(): %s[%d] is read beyond the end of the buffer" % over,
          key="SPARSE:is-sparse-covers-buffer")


def check_sparse_on_failure(ck, prog):
    """When decoding fails, xz still writes everything that was decoded ("the user gets as much data as possible").  With
    sparse output, trailing runs of zeros are only counted (dest_pending_sparse) and turned into file size by the
    lseek + 1-byte write in io_close().  A target that xz created itself is removed on failure, so nothing is lost there;
    but standard output stays: the final hole has to be materialised also when `success` is false, otherwise
    `xz -dc damaged.xz > file` delivers fewer bytes than a pipe or --no-sparse would.  Rule: the lseek() of io_close()
    is reachable without taking the true edge of a test of `success`."""
    f = prog.fn("io_close", FIO, target="xz")
    ck.saw_function(f)
    lseekb = [b.id for b, i, e in f.iter_elems() for c in ex.calls(e, into_refs=True) if c.get("fn") == "lseek"]
    if not lseekb:
        raise AnalysisBroken("io_close: the lseek() that materialises the final hole was not found")
    cut = set()
    for b in f.blocks.values():
        if b.term and "cond" in b.term and len(b.succs) == 2:
            c = ex.strip(b.term["cond"])
            neg = False
            while c is not None and c.get("k") == "un" and c["op"] == "!":
                neg = not neg
                c = ex.strip(c["e"])
            if c is not None and c.get("k") == "var" and c["n"] == "success":
                cut.add((b.id, 1 if neg else 0))
    seen, st, hit = set(), [f.entry], False
    while st:
        x = st.pop()
        if x in seen:
            continue
        seen.add(x)
        if x in lseekb:
            hit = True
            break
        for idx, y in enumerate(f.blocks[x].succs):
            if y is not None and (x, idx) not in cut:
                st.append(y)
    stdout_mentioned = any(b.term and "cond" in b.term and "dest_fd" in ex.show(b.term["cond"]) and ex.const_val(ex.strip(b.term["cond"]).get("r")) == 1
                           for b in f.blocks.values() if b.id in seen)
    ck.ob("C18-SPARSE", "final-hole-on-failure", hit, common.where(f),
          "io_close: the final hole is materialised also when success is false (standard output is kept)" if hit else
          "io_close(): the lseek()+write that turns the pending run of zeros into file size is reached only when `success` is "
          "true; after a decoding error standard output (a regular file that xz does not remove) therefore lacks the zeros "
          "that were decoded before the error: `xz -dc damaged.xz > file` is shorter than `xz -dc damaged.xz | cat`",
          key="SPARSE:final-hole-on-failure")


def check_position_probe(ck, prog):
    """Sparse output to an existing regular stdout is allowed only if writing starts at the end of the file.  The probe
    compares the CURRENT offset with st_size: `lseek(STDOUT_FILENO, 0, SEEK_CUR) != st_size`.  lseek(..., 0, SEEK_END)
    would always equal st_size and, worse, moves the offset: output then lands behind data that should be overwritten."""
    f = prog.fn("io_open_dest_real", FIO, target="xz")
    ck.saw_function(f)
    probes = []
    for b in f.blocks.values():
        if b.term and "cond" in b.term and "st_size" in ex.show(b.term["cond"]):
            for c in ex.calls(b.term["cond"]):
                if c.get("fn") == "lseek" and len(c["args"]) == 3:
                    probes.append((c, ex.const_val(c["args"][1]), ex.const_val(c["args"][2])))
    if not probes:
        raise AnalysisBroken("io_open_dest_real: the lseek() probe compared with st_size was not found")
    ok = all(off == 0 and wh == 1 for (c, off, wh) in probes)
    ck.ob("C18-SPARSE", "position-probe", ok, common.where(f, probes[0][0]),
          "io_open_dest_real: the offset compared with st_size is lseek(fd, 0, SEEK_CUR)" if ok else
          "io_open_dest_real(): the `writing starts at the end of the file?` probe is lseek(fd, %s, whence=%s) instead of "
          "lseek(fd, 0, SEEK_CUR): it no longer reads the current offset (with SEEK_END it always equals st_size and moves the "
          "offset to the end), so output to a stdout positioned inside an existing file is written at the wrong place" % (
              probes[0][1], probes[0][2]), key="SPARSE:position-probe")


def check_decflags(ck, prog):
    """xz must hand over everything the library decodes before an error (xzdec and `xz -dc` agree byte for byte up to the
    error): it must not ask the threaded decoder to fail fast, and it asks for exactly the documented flags."""
    ck.rule("C18-DECFLAGS", "decoder flags set by xz are exactly TELL_UNSUPPORTED_CHECK, CONCATENATED, IGNORE_CHECK")
    f = prog.fn("coder_init", "coder.c", target="xz")
    ck.saw_function(f)
    got = {}
    for b, i, e in f.iter_elems():
        for (l, r, op, node) in ex.writes(e):
            ls = ex.strip(l)
            if ls is not None and ls.get("k") == "var" and ls["n"] == "flags" and op == "|=":
                v = ex.const_val(r)
                got[v] = ex.line(node)
    extra = sorted(v for v in got if v not in XZ_DECODER_FLAGS)
    missing = sorted(v for v in XZ_DECODER_FLAGS if v not in got)
    ck.ob("C18-DECFLAGS", "coder_init", not extra and not missing, common.where(f),
          "xz coder_init: decoder flags ORed in: %s" % sorted(XZ_DECODER_FLAGS[v] for v in got if v in XZ_DECODER_FLAGS)
          if not extra and not missing else
          "xz coder_init(): decoder flags %s are set in addition to / instead of the documented ones (missing: %s); "
          "LZMA_FAIL_FAST (0x20) in particular makes the threaded decoder drop output that precedes an error, so "
          "`xz -d < damaged` delivers less than xzdec" % ([hex(v) if v is not None else "?" for v in extra],
                                                           [XZ_DECODER_FLAGS[v] for v in missing]),
          key="DECFLAGS:coder_init")


def check_fmt(ck, prog):
    ck.rule("C18-FMT", "decoder flags in coder_init")
    f = prog.fn("coder_init", "coder.c", target="xz")
    ck.saw_function(f)
    flags = {}
    for b, i, e in f.iter_elems():
        for (l, r, op, n) in ex.writes(e):
            if ex.show(l) == "flags" and op == "|=" and r is not None:
                v = ex.const_val(r)
                # controlling condition: predecessor branch
                conds = []
                for p in b.preds:
                    t = f.blocks[p].term
                    if t and "cond" in t:
                        conds.append(("T" if f.blocks[p].succs[0] == b.id else "F", ex.show(t["cond"])))
                flags[v] = conds
    want = {0x08: ("opt_single_stream", "F"), 0x10: ("opt_ignore_check", "T"),
            0x02: ("opt_ignore_check", "F")}
    setb = {}
    for b, i, e in f.iter_elems():
        for (l, r, op, n) in ex.writes(e):
            if ex.show(l) == "flags" and op == "|=" and r is not None:
                setb[ex.const_val(r)] = b.id
    for v, (var, edge) in sorted(want.items()):
        blk = setb.get(v)
        ok = False
        if blk is not None:
            # every path from the entry to the store takes the `edge` edge of the test of `var`
            tests = [bb for bb in f.blocks.values() if bb.term and "cond" in bb.term
                     and ex.show(bb.term["cond"]) == var and len(bb.succs) == 2]
            for tb in tests:
                allowed = tb.succs[0] if edge == "T" else tb.succs[1]
                seen = set()
                st = [f.entry]
                reach = False
                while st:
                    x = st.pop()
                    if x in seen:
                        continue
                    seen.add(x)
                    if x == blk:
                        reach = True
                        break
                    for sx in cfg.succs(f, x):
                        if x == tb.id and sx == allowed:
                            continue      # cut the required edge
                        st.append(sx)
                if not reach:
                    ok = True
        ck.ob("C18-FMT", "flag:%#x" % v, ok, common.where(f),
              "decoder flag %#x is set exactly on the %s edge of `%s`" % (v, edge, var) if ok else
              "decoder flag %#x can be set without taking the %s edge of `%s`" % (v, edge, var),
              key="FMT:flag:%#x" % v)
    # allow_trailing_input only for --single-stream and .lz
    ats = [(ex.line(n)) for b, i, e in f.iter_elems() for (l, r, op, n) in ex.writes(e)
           if ex.show(l) == "allow_trailing_input" and ex.is_const(r, 1)]
    ck.ob("C18-FMT", "trailing-input-sites", len(ats) == 2, common.where(f),
          "allow_trailing_input = true at %d sites (--single-stream, FORMAT_LZIP)" % len(ats),
          key="FMT:trailing-sites")
    ck.floor("C18-FMT", 4)


def check_flush_timeout_mode(ck, prog, rule="C18-FLUSHMODE"):
    """--flush-timeout is a compression option ("ignored when decompressing", xz(1)).  In io_read() a timeout makes a read
    from a slow pipe end early with "no more input for now"; when compressing that triggers LZMA_SYNC_FLUSH, when
    decompressing it would hand the decoder a short read as if it were the end.  mytime_get_flush_timeout() therefore
    returns -1 (no timeout) on every path on which opt_mode == MODE_COMPRESS has not been established."""
    ck.rule(rule, "mytime_get_flush_timeout() returns a real timeout only when opt_mode == MODE_COMPRESS")
    f = prog.fn("mytime_get_flush_timeout", "mytime.c", target="xz")
    ck.saw_function(f)
    gs = guard.find_cmp(f, "var:opt_mode", "enum:MODE_COMPRESS")
    cut = {(g.bid, 0 if g.pass_label == "T" else 1) for g in gs}
    seen, st, bad = set(), [f.entry], None
    while st:
        x = st.pop()
        if x is None or x in seen:
            continue
        seen.add(x)
        for e in f.blocks[x].elems:
            d = ex.deref(e) if e is not None else None
            if d is not None and d.get("k") == "ret" and d.get("e") is not None and ex.const_val(d["e"]) != -1:
                bad = bad or d
        for idx, y in enumerate(f.blocks[x].succs):
            if (x, idx) not in cut:
                st.append(y)
    ok = bad is None
    ck.ob(rule, "mytime_get_flush_timeout", ok, common.where(f, bad),
          "mytime_get_flush_timeout: without opt_mode == MODE_COMPRESS only `return -1` is reachable (%d mode test(s))" % len(gs) if ok else
          "mytime_get_flush_timeout(): `%s` is reachable without opt_mode == MODE_COMPRESS having been established: with "
          "--flush-timeout, `xz -dc` from a slow pipe stops waiting for input after the timeout and the decoder sees a short read" %
          ex.show(bad), key="FLUSHMODE:mytime_get_flush_timeout")


def run(ck):
    ck.explanation = (
        "Path-sensitive (finite-domain `ret`) write-before-fail and exit-status rules over xzdec/lzmadec's "
        "uncompress() (both preprocessor variants are analysed as separate targets) and xz's coder_normal; "
        "message_* to exit-status mapping; provenance rules of the sparse-file optimisation; decoder flag construction.")
    ck.not_decided = ("byte equality of the output across sinks and thread counts, the product of CLI options, "
                      "round trips.")
    ck.rule("C18-WBF", "pending decoded output is written before a decoder error is reported")
    ck.rule("C18-EXIT", "exit status reports failure exactly when the library reports an error")
    prog = common.program(ck, ("xz",))
    check_xz(ck, prog)
    for tgt in ("xzdec", "lzmadec"):
        p2 = common.program(ck, (tgt,), files=("xzdec.c",))
        check_xzdec(ck, p2, tgt)
    ck.floor("C18-WBF", 5)
    ck.floor("C18-EXIT", 14)
    check_sparse(ck, prog)
    check_is_sparse(ck, prog)
    check_sparse_on_failure(ck, prog)
    check_position_probe(ck, prog)
    check_decflags(ck, prog)
    check_fmt(ck, prog)
    check_flush_timeout_mode(ck, prog)
    # "a file is created only from a completely valid input": coder_normal's success rules (shared with C17)
    from . import C17
    C17.check_fail(ck, prog)
    C17.check_perfile(ck, prog)
    C17.check_msg_status(ck, prog, rule="C18-STATUS")
    # xz recognises exactly the .lzma files that the library (and lzmadec) decode (rule shared with C16)
    from . import C16
    C16.check_xz_lzma_heur(ck, prog, rule="C18-FMT")
    C16.check_xz_lzma_size(ck, common.program(ck, ("liblzma",)), prog, rule="C18-FMT")
    # `xz -d -T` writes everything that was decoded before an error, like `xz -d -T1` and xzdec do: the threaded decoder
    # returns a pending main-thread error only after its output queue was drained (rule shared with C07)
    from . import C07 as _C07
    from .oblig import evaluate as _evaluate
    ck.rule("C18-MTERR", "threaded decoder: the pending error is returned only after all earlier output was delivered")
    _evaluate(ck, common.program(ck, ("liblzma",)), "C18-MTERR",
              [t_ for t_ in _C07.TABLE if t_.oid == "error-after-drain"], floor=1)
