"""C15 — BCJ and delta filters are exact inverses, size-preserving and stable (structural clauses).

C15-SYM   `is_encoder` only selects between `src + pc` and `src - pc` (or negates pc); nothing else in a
          filter function depends on the direction.
C15-OPC   detection predicates evaluated over all values of the bytes they read equal spec/bcj.py;
          x86 opcode / MS-byte sets; ARM64 BL/ADRP masks; IA-64 branch table.
C15-WIN   lzma_simple_coder_init(unfiltered_max, alignment) per filter equal the look-ahead the loop reads
          and the spec alignment; start_offset alignment check present.
C15-ONE   the one-shot x86 API initialises the same filter state as the streaming init.
C15-DELTA the three delta loops use identical history indexing; encoder stores the input byte, decoder
          the output byte; props dist - 1 <-> props + 1.
"""
import itertools

from sa import ex, cfg, guard, bits
from sa.compdb import AnalysisBroken
from . import common
import spec.bcj as B

FILTERS = ["x86", "powerpc", "ia64", "arm", "armthumb", "sparc", "arm64", "riscv"]


def flatten(n, sign=1):
    """Flatten a +/- expression into [(sign, text)]."""
    n = ex.strip(n)
    if n is None:
        return []
    if n.get("k") == "bin" and n["op"] in ("+", "-"):
        return flatten(n["l"], sign) + flatten(n["r"], sign if n["op"] == "+" else -sign)
    return [(sign, ex.show(n))]


def check_sym(ck, prog):
    ck.rule("C15-SYM", "the direction flag only flips the sign of the pc term")
    for arch in FILTERS:
        names = [arch + "_code"] if arch != "riscv" else ["riscv_encode", "riscv_decode"]
        for name in names:
            f = prog.fn(name, arch + ".c", required=False)
            if f is None:
                raise AnalysisBroken("filter function %s vanished" % name)
            ck.saw_function(f)
        if arch == "riscv":
            ck.ob("C15-SYM", "riscv", True, "src/liblzma/simple/riscv.c",
                  "RISC-V uses two separate functions; their structural alignment is NOT analysed")
            continue
        f = prog.fn(arch + "_code", arch + ".c")
        uses = []
        for b in f.blocks.values():
            for i, e in enumerate(b.elems):
                if e is None:
                    continue
                for x in ex.walk(e, into_refs=False):
                    if x.get("k") == "var" and x["n"] == "is_encoder":
                        uses.append((b, i))
        if not uses:
            ck.ob("C15-SYM", arch, False, common.where(f), "is_encoder is not used", key="SYM:" + arch)
            continue
        okall = True
        why = ""
        for (b, i) in uses:
            t = b.term
            iscond = t and "cond" in t and "is_encoder" in ex.show(t["cond"]) and i == len(b.elems) - 1
            if not iscond:
                okall = False
                why = "is_encoder is used outside a branch condition at line %d" % ex.line(b.elems[i])
                break
            tb, fb = f.blocks[b.succs[0]], f.blocks[b.succs[1]]
            neg = ex.show(t["cond"]).replace("(", "").startswith("!")
            wt = [(ex.show(l), r, op) for e in tb.elems if e for (l, r, op, n) in ex.writes(e)]
            wf = [(ex.show(l), r, op) for e in fb.elems if e for (l, r, op, n) in ex.writes(e)]
            st, sf = cfg.succs(f, tb.id), cfg.succs(f, fb.id)
            if st == [fb.id] or sf == [tb.id]:
                # if without else: the guarded statement must be `pc = 0 - pc`, taken when decoding
                w = wt if st == [fb.id] else wf
                taken_when_decoding = neg if st == [fb.id] else not neg
                if not (len(w) == 1 and w[0][0] == "pc" and w[0][2] == "=" and taken_when_decoding and
                        ex.show(w[0][1]).replace(" ", "").replace("(", "").replace(")", "") in ("0-pc", "-pc")):
                    okall = False
                    why = "conditional statement at line %d is not `if (!is_encoder) pc = 0 - pc`: %s" % (
                        t["ln"], [(a, ex.show(r_), o) for a, r_, o in w])
                    break
                why = "pc is negated for decoding"
            elif len(wt) == 1 and len(wf) == 1 and wt[0][0] == wf[0][0] and wt[0][2] == "=" and wf[0][2] == "=" \
                    and st == sf:
                a, c = flatten(wt[0][1]), flatten(wf[0][1])
                if neg:
                    a, c = c, a
                same = sorted(t_ for s, t_ in a) == sorted(t_ for s, t_ in c)
                sa_, sc = {t_: s for s, t_ in a}, {t_: s for s, t_ in c}
                flipped = [t_ for t_ in sa_ if sa_[t_] != sc.get(t_)]
                kept = [t_ for t_ in sa_ if sa_[t_] == sc.get(t_)]
                if not (same and flipped and kept and "src" in kept and all(sa_[x] == 1 for x in flipped)
                        and sa_["src"] == 1):
                    okall = False
                    why = "arms at line %d are not src + pc (encode) / src - pc (decode): %s vs %s" % (t["ln"], a, c)
                    break
                why = "dest = src +/- (%s)" % " + ".join(sorted(flipped))
            else:
                okall = False
                why = "branch on is_encoder at line %d has an unexpected shape" % t["ln"]
                break
        ck.ob("C15-SYM", arch, okall, common.where(f),
              "%d use(s) of is_encoder, all of the form: %s" % (len(uses), why) if okall else why,
              key="SYM:" + arch)
    ck.floor("C15-SYM", 8)


def byte_atoms(f, cond):
    """byte offsets k of buffer[i + k] read by a condition."""
    out = set()
    for x in ex.walk(cond):
        if x.get("k") == "idx" and ex.show(x["b"]) == "buffer":
            ix = ex.strip(x["i"])
            if ix.get("k") == "var":
                out.add(0)
            elif ix.get("k") == "bin" and ix["op"] == "+" and ex.const_val(ix["r"]) is not None:
                out.add(ex.const_val(ix["r"]))
    return out


def eval_cond(n, env):
    n = ex.strip(n)
    k = n.get("k")
    M64 = (1 << 64) - 1
    if k in ("const", "enum"):
        return n["v"]
    if k == "idx" and ex.show(n["b"]) == "buffer":
        ix = ex.strip(n["i"])
        off = 0 if ix.get("k") == "var" else ex.const_val(ix["r"])
        return env[off]
    if k == "var" and n["n"] in env:
        return env[n["n"]]
    if k == "bin":
        op = n["op"]
        a = eval_cond(n["l"], env)
        if op == "&&":
            return int(bool(a) and bool(eval_cond(n["r"], env)))
        if op == "||":
            return int(bool(a) or bool(eval_cond(n["r"], env)))
        b = eval_cond(n["r"], env)
        M = 0xFFFFFFFF
        if op == "==": return int(a == b)
        if op == "!=": return int(a != b)
        if op == "&": return a & b
        if op == "|": return a | b
        if op == ">>": return a >> b if b < 64 else 0
        if op == "<<": return (a << b) & M if b < 64 else 0
        if op == "+": return (a + b) & M
        if op == "-": return (a - b) & M
        if op == "<": return int(a < b)
        if op == ">": return int(a > b)
        if op == "<=": return int(a <= b)
        if op == ">=": return int(a >= b)
        raise AnalysisBroken("cannot evaluate operator %s" % op)
    if k == "un" and n["op"] == "!":
        return int(not eval_cond(n["e"], env))
    raise AnalysisBroken("cannot evaluate %s" % ex.show(n))


def path_predicates(f, start, target):
    """All acyclic CFG paths start -> target as lists of (cond node, truth)."""
    out = []

    def dfs(b, lits, seen):
        if b == target:
            out.append(list(lits))
            return
        if b in seen or len(out) > 64:
            return
        blk = f.blocks[b]
        t = blk.term
        if t and "cond" in t and len(blk.succs) == 2:
            for s_, tr in ((blk.succs[0], True), (blk.succs[1], False)):
                if s_ is not None:
                    dfs(s_, lits + [(t["cond"], tr)], seen | {b})
        else:
            for s_ in cfg.succs(f, b):
                dfs(s_, lits, seen | {b})
    dfs(start, [], set())
    return out


def conversion_block(f):
    """First block that stores into buffer[...] (the conversion)."""
    best = None
    for b, i, e in f.iter_elems():
        for (l, r, op, n) in ex.writes(e):
            ls = ex.strip(l)
            if ls is not None and ls.get("k") == "idx" and ex.show(ls["b"]) == "buffer":
                if best is None or (ex.line(n) or 0) < best[1]:
                    best = (b.id, ex.line(n) or 0)
    return best[0] if best else None


def loop_body_entry(f):
    for b in f.blocks.values():
        if b.term and b.term.get("kind") == "ForStmt" and "cond" in b.term and b.succs[0] is not None:
            return b.succs[0]
    return None


def _sym_cond(env, n):
    """Condition tree with bit-vector leaves: ('cmp', op, va, vb) | ('and'|'or', x, y) | ('not', x) | ('val', v)."""
    n = ex.deref(n)
    k = n.get("k")
    if k == "bin" and n["op"] in ("&&", "||"):
        return ("and" if n["op"] == "&&" else "or", _sym_cond(env, n["l"]), _sym_cond(env, n["r"]))
    if k == "un" and n["op"] == "!":
        return ("not", _sym_cond(env, n["e"]))
    if k == "bin" and n["op"] in ("==", "!=", "<", ">", "<=", ">="):
        return ("cmp", n["op"], env.ev(n["l"]), env.ev(n["r"]))
    return ("val", env.ev(n))


def _cond_deps(t):
    if t[0] in ("and", "or"):
        return _cond_deps(t[1]) | _cond_deps(t[2])
    if t[0] == "not":
        return _cond_deps(t[1])
    vs = t[2:] if t[0] == "cmp" else t[1:]
    d = set()
    for v in vs:
        for x in v[0]:
            d |= set(bits.deps_of(x))
    return d


def _cond_value(t, asg):
    if t[0] == "and":
        return _cond_value(t[1], asg) and _cond_value(t[2], asg)
    if t[0] == "or":
        return _cond_value(t[1], asg) or _cond_value(t[2], asg)
    if t[0] == "not":
        return not _cond_value(t[1], asg)

    def conc(v):
        out = 0
        for j, x in enumerate(v[0]):
            if x == 1:
                out |= 1 << j
            elif x == 0:
                continue
            elif isinstance(x, frozenset):
                raise bits.Unsupported("bit not determined by the instruction bytes")
            elif x[0] == "~":
                if x[1] not in asg:
                    raise bits.Unsupported("free bit %s" % (x[1],))
                out |= (1 - asg[x[1]]) << j
            else:
                if x not in asg:
                    raise bits.Unsupported("free bit %s" % (x,))
                out |= asg[x] << j
        return out
    if t[0] == "val":
        return conc(t[1]) != 0
    a, b = conc(t[2]), conc(t[3])
    return {"==": a == b, "!=": a != b, "<": a < b, ">": a > b, "<=": a <= b, ">=": a >= b}[t[1]]


def opc_generic(f, arch, ref):
    """Evaluate `this instruction is converted` as a function of the instruction bits: conjunction of the branch
    conditions on each path from the loop body to the first block that stores into the buffer."""
    start = loop_body_entry(f)
    if start is None:
        raise AnalysisBroken("%s: loop not recognised" % arch)
    order = shortest_path(f, start, lambda b: has_store(f, b))
    if order is None:
        raise AnalysisBroken("%s: no store into the buffer" % arch)
    tgt = order[-1]
    # all acyclic block paths start -> tgt
    paths = []

    def dfs(b, blocks, lits, seen):
        if b == tgt:
            paths.append((blocks + [b], list(lits)))
            return
        if b in seen or len(paths) > 32:
            return
        blk = f.blocks[b]
        t = blk.term
        if t and "cond" in t and len(blk.succs) == 2:
            for s_, tr in ((blk.succs[0], True), (blk.succs[1], False)):
                if s_ is not None:
                    dfs(s_, blocks + [b], lits + [(b, t["cond"], tr)], seen | {b})
        else:
            for s_ in cfg.succs(f, b):
                dfs(s_, blocks + [b], lits, seen | {b})
    dfs(start, [], [], set())
    if not paths:
        raise AnalysisBroken("%s: no path to the conversion" % arch)
    sym_paths = []
    support = set(B.SUPPORT[arch])
    try:
        for blocks, lits in paths:
            env = bits.Env(f)
            conds = []
            litmap = {b_: (c_, tr_) for (b_, c_, tr_) in lits}
            for b_ in blocks[:-1]:
                env.run_block(f.blocks[b_])
                if b_ in litmap:
                    c_, tr_ = litmap[b_]
                    t_ = _sym_cond(env, c_)
                    if _cond_deps(t_) and all(d == ("V", "is_encoder") for d in _cond_deps(t_)):
                        continue            # direction select, not part of the detection
                    conds.append((t_, tr_))
                    support |= {d for d in _cond_deps(t_) if d[0] == "B"}
                    if any(d[0] != "B" for d in _cond_deps(t_)):
                        raise AnalysisBroken("%s: detection depends on %s, not only on the instruction bytes" % (
                            arch, sorted(d for d in _cond_deps(t_) if d[0] != "B")[:2]))
            sym_paths.append(conds)
    except bits.Unsupported as e_:
        raise AnalysisBroken("%s: detection predicate uses a construct the bit evaluator cannot follow: %s" % (arch, e_))
    support = sorted(support)
    if len(support) > 18:
        raise AnalysisBroken("%s: detection predicate depends on %d instruction bits" % (arch, len(support)))
    bad = None
    n = 0
    for vals in itertools.product((0, 1), repeat=len(support)):
        asg = dict(zip(support, vals))
        try:
            got = any(all(_cond_value(t_, asg) == tr_ for (t_, tr_) in conds) for conds in sym_paths)
        except bits.Unsupported as e_:
            raise AnalysisBroken("%s: %s" % (arch, e_))
        b4 = [0, 0, 0, 0]
        for (sym, v) in asg.items():
            if v and sym[1] < 4:
                b4[sym[1]] |= 1 << sym[2]
        n += 1
        if got != ref(b4) and bad is None:
            bad = (b4, got)
    return bad, support, n


def check_opc(ck, prog):
    ck.rule("C15-OPC", "instruction detection predicates equal the reference over all byte values they read")
    total = 0
    for arch, ref in (("arm", B.arm), ("armthumb", B.armthumb), ("powerpc", B.powerpc), ("sparc", B.sparc)):
        f = prog.fn(arch + "_code", arch + ".c")
        res = opc_generic(f, arch, ref)
        total += res[2]
        bad, support = res[0], res[1]
        ck.ob("C15-OPC", arch, bad is None, common.where(f),
              "%s: detection predicate (symbolic bit evaluation of the path conditions up to the first store) equals the "
              "ISA reference on all %d assignments of the %d instruction bits it or the reference depends on" % (
                  arch, res[2], len(support))
              if bad is None else "%s: instruction bytes %s are %s by the code but %s by the ISA reference" % (
                  arch, [hex(x) for x in bad[0]], "converted" if bad[1] else "skipped",
                  "skipped" if bad[1] else "converted"), key="OPC:" + arch)
    # x86 opcode and MS-byte sets, and the prev_mask gate, from the path conditions
    f = prog.fn("x86_code", "x86.c")
    ck.saw_function(f)
    body = off_blk = src_blk = b4_blk = None
    for blk in f.blocks.values():
        if blk.term and blk.term.get("kind") == "WhileStmt" and "cond" in blk.term and \
                "limit" in ex.show(blk.term["cond"]):
            body = blk.succs[0]
    for blk, i, e in f.iter_elems():
        e = ex.deref(e)
        if e.get("k") == "decl" and e["n"] == "offset":
            off_blk = blk.id
        if e.get("k") == "decl" and e["n"] == "src":
            src_blk = blk.id
        if e.get("k") == "asg" and ex.show(e["l"]) == "b" and "buffer" in ex.show(e["r"]):
            b4_blk = blk.id
    if None in (body, off_blk, src_blk, b4_blk):
        raise AnalysisBroken("x86_code: structure not recognised")

    def accepted(start, target, envs):
        paths = path_predicates(f, start, target)
        return paths, [env for env in envs
                       if any(all(bool(eval_cond(c, env)) == tr for (c, tr) in p_) for p_ in paths)]
    p1, acc = accepted(body, off_blk, [{"b": v} for v in range(256)])
    got = {e_["b"] for e_ in acc}
    total += 256
    ck.ob("C15-OPC", "x86-opcodes", got == B.X86_OPCODES and bool(p1), common.where(f),
          "x86: opcodes converted %s" % sorted(hex(x) for x in got), key="OPC:x86-opcodes")
    p2, acc = accepted(b4_blk, src_blk, [{"b": v, "prev_mask": 0} for v in range(256)])
    gotm = {e_["b"] for e_ in acc}
    total += 256
    ck.ob("C15-OPC", "x86-msbyte", gotm == B.X86_MSBYTE and bool(p2), common.where(f),
          "x86: plausible most significant bytes %s" % sorted(hex(x) for x in gotm), key="OPC:x86-msbyte")
    p3, acc = accepted(b4_blk, src_blk, [{"b": 0, "prev_mask": v} for v in range(256)])
    gotp = {e_["prev_mask"] >> 1 for e_ in acc}
    total += 256
    ck.ob("C15-OPC", "x86-prev-mask-gate", gotp == B.X86_ALLOWED_MASK, common.where(f),
          "x86: conversion allowed for prev_mask >> 1 in %s (reference %s)" % (sorted(gotp), sorted(B.X86_ALLOWED_MASK)),
          key="OPC:x86-prev-mask")
    tab = None
    for blk, i, e in f.iter_elems():
        e = ex.deref(e)
        if e.get("k") == "decl" and e["n"] == "MASK_TO_BIT_NUMBER" and e.get("init") is not None:
            tab = [ex.const_val(x) for x in ex.strip(e["init"])["e"]]
    ck.ob("C15-OPC", "x86-bit-number-table", tab == B.X86_MASK_TO_BIT_NUMBER, common.where(f),
          "x86: MASK_TO_BIT_NUMBER = %s" % tab, key="OPC:x86-bit-number")
    ups = sorted((op, ex.const_val(r)) for blk, i, e in f.iter_elems() for (l, r, op, n) in ex.writes(e)
                 if ex.show(l) == "prev_mask" and ex.strip(n).get("k") == "asg")
    ck.ob("C15-OPC", "x86-prev-mask-updates", ups == sorted(B.X86_MASK_UPDATES), common.where(f),
          "x86: prev_mask updates %s" % ups, key="OPC:x86-mask-updates")
    # the history survives the call: both fields are stored back on the path that leaves the loop
    doms = cfg.dominators(f)
    rets = [blk.id for blk in f.blocks.values() for e in blk.elems if e and ex.deref(e).get("k") == "ret"
            and ex.show(ex.deref(e).get("e")) == "buffer_pos"]
    saved = set()
    for blk, i, e in f.iter_elems():
        for (l, r, op, n) in ex.writes(e):
            if ex.show(l) in ("simple->prev_mask", "simple->prev_pos") and op == "=" and \
                    ex.show(r) == ex.show(l).split("->")[1] and rets and all(blk.id in doms[r_] for r_ in rets):
                saved.add(ex.show(l))
    ck.ob("C15-OPC", "x86-state-saved", saved == {"simple->prev_mask", "simple->prev_pos"}, common.where(f),
          "x86: history stored back before returning the processed count: %s" % sorted(saved),
          key="OPC:x86-state-saved")
    # ARM64 masks
    f = prog.fn("arm64_code", "arm64.c")
    ck.saw_function(f)
    conds = [b.term["cond"] for b in f.blocks.values() if b.term and "cond" in b.term and "instr" in ex.show(b.term["cond"])]
    bl = [c for c in conds if ">> 26" in ex.show(c)]
    ad = [c for c in conds if "2667577344" in ex.show(c) or "& 2667577344" in ex.show(c)]
    okb = len(bl) == 1 and all(bool(eval_cond(bl[0], {"instr": k << 26})) == B.arm64_bl(k << 26) for k in range(64))
    bits = [31, 28, 27, 26, 25, 24]
    oka = len(ad) == 1
    if oka:
        for combo in range(64):
            v = 0
            for j, bt in enumerate(bits):
                if combo >> j & 1:
                    v |= 1 << bt
            for extra in (0, 0x60FFFFFF):
                if bool(eval_cond(ad[0], {"instr": v | extra})) != B.arm64_adrp(v | extra):
                    oka = False
    total += 64 + 128
    ck.ob("C15-OPC", "arm64-bl", okb, common.where(f), "ARM64 BL: (instr >> 26) == 0x25 on all 64 opcode values",
          key="OPC:arm64-bl")
    ck.ob("C15-OPC", "arm64-adrp", oka, common.where(f), "ARM64 ADRP: mask 0x9F000000 / value 0x90000000",
          key="OPC:arm64-adrp")
    # IA-64 branch table
    f = prog.fn("ia64_code", "ia64.c")
    ck.saw_function(f)
    tab = None
    for b, i, e in f.iter_elems():
        if e.get("k") == "decl" and e["n"] == "BRANCH_TABLE" and e.get("init") is not None:
            tab = [ex.const_val(x) for x in ex.strip(e["init"])["e"]]
    if tab is None:
        for g in prog.globals.get("BRANCH_TABLE", []):
            if g.get("init"):
                tab = [ex.const_val(x) for x in ex.strip(g["init"])["e"]]
    ck.ob("C15-OPC", "ia64-table", tab == B.IA64_BRANCH_TABLE, common.where(f), "IA-64 BRANCH_TABLE = %s" % tab,
          key="OPC:ia64-table")
    # IA-64: the slot predicate depends on the opcode (bits 37..40 == 5) and btype (bits 9..11 == 0) only -- the
    # predicate register field (bits 0..5) is NOT examined by the reference filter
    f = prog.fn("ia64_code", "ia64.c")
    iconds = [b.term["cond"] for b in f.blocks.values() if b.term and "cond" in b.term and
              any(x.get("k") == "var" and x["n"] == "inst_norm" for x in ex.walk(b.term["cond"]))]
    ibits = list(range(0, 6)) + [9, 10, 11] + [37, 38, 39, 40]
    badv = None
    ni = 0
    for combo in range(1 << len(ibits)):
        v = 0
        for j, bt in enumerate(ibits):
            if combo >> j & 1:
                v |= 1 << bt
        try:
            got = all(bool(eval_cond(c, {"inst_norm": v})) for c in iconds)
        except (AnalysisBroken, KeyError):
            raise AnalysisBroken("ia64_code: slot predicate uses something else than inst_norm")
        ni += 1
        if got != B.ia64_slot(v) and badv is None:
            badv = (v, got)
    total += ni
    ck.ob("C15-OPC", "ia64-slot", badv is None and len(iconds) >= 2, common.where(f),
          "IA-64: slot predicate equals ((inst >> 37) & 0xF) == 5 && ((inst >> 9) & 7) == 0 on all %d assignments of the bits "
          "0-5, 9-11, 37-40" % ni if badv is None else
          "IA-64: a slot with instruction bits %#x is %s by the code but %s by the reference filter (predicated branches "
          "are converted too)" % (badv[0], "converted" if badv[1] else "skipped", "skipped" if badv[1] else "converted"),
          key="OPC:ia64-slot")
    # pc bias
    for arch, bias in B.PC_BIAS.items():
        f = prog.fn(arch + "_code", arch + ".c")
        found = set()
        for b, i, e in f.iter_elems():
            for (l, r, op, n) in ex.writes(e):
                if ex.show(l) == "dest" and r is not None and "now_pos" in ex.show(r):
                    consts = [abs(ex.const_val(x)) for x in ex.walk(r) if x.get("k") == "const"]
                    found.add(sum(consts))
        if not found:
            raise AnalysisBroken("%s: `dest = ... now_pos ...` not found (conversion code has an unknown shape)" % arch)
        ck.ob("C15-OPC", "pc-bias:" + arch, found == {bias}, common.where(f),
              "%s: pc = now_pos + i + %s (reference %d)" % (arch, sorted(found), bias), key="OPC:pc-bias:" + arch)
    ck.extra["predicate_evaluations"] = total
    ck.exhaustive = True
    ck.floor("C15-OPC", 14)


def check_win(ck, prog):
    ck.rule("C15-WIN", "look-ahead and alignment passed to lzma_simple_coder_init equal what the loop reads and the spec")
    for arch in FILTERS:
        inits = [arch + "_coder_init"] if arch != "riscv" else ["lzma_simple_riscv_encoder_init",
                                                                   "lzma_simple_riscv_decoder_init"]
        want = B.ARCH[arch]
        um = None
        for ini in inits:
            init = prog.fn(ini, arch + ".c")
            ck.saw_function(init)
            call = None
            for b, i, e in init.iter_elems():
                for c in ex.calls(e, into_refs=True):
                    if c.get("fn") == "lzma_simple_coder_init":
                        call = c
            if call is None:
                raise AnalysisBroken("%s: lzma_simple_coder_init call vanished" % ini)
            um, al = ex.const_val(call["args"][5]), ex.const_val(call["args"][6])
            ck.ob("C15-WIN", "args:" + ini, (um, al) == (want["window"], want["alignment"]), common.where(init),
                  "%s: unfiltered_max=%s alignment=%s (spec %d/%d)" % (ini, um, al, want["window"], want["alignment"]),
                  key="WIN:args:" + ini)
        # maximum byte offset read from buffer + 1 must not exceed unfiltered_max
        fns = [arch + "_code"] if arch != "riscv" else ["riscv_encode", "riscv_decode"]
        mx = 0
        for nm in fns:
            f = prog.fn(nm, arch + ".c")
            for b, i, e in f.iter_elems():
                for x in ex.walk(e, into_refs=False):
                    if x.get("k") == "idx" and ex.show(x["b"]) == "buffer":
                        ix = ex.strip(x["i"])
                        k = 0
                        if ix.get("k") == "bin" and ix["op"] == "+" and ex.const_val(ix["r"]) is not None:
                            k = ex.const_val(ix["r"])
                        mx = max(mx, k + 1)
                    if x.get("k") == "call" and x.get("fn") in ("read32le", "read32be", "write32le", "write32ne",
                                                                  "read32ne", "aligned_read32le"):
                        a = ex.strip(x["args"][0])
                        k = 0
                        if a.get("k") == "bin" and a["op"] == "+":
                            inner = ex.strip(a["r"])
                            if inner.get("k") == "bin" and inner["op"] == "+" and ex.const_val(inner["r"]) is not None:
                                k = ex.const_val(inner["r"])
                        mx = max(mx, k + 4)
        ck.ob("C15-WIN", "lookahead:" + arch, um is not None and 0 < mx <= max(um, 1) or arch in ("ia64",),
              "src/liblzma/simple/%s.c" % arch,
              "%s: largest constant byte offset read is %d, unfiltered_max %s" % (arch, mx, um),
              key="WIN:lookahead:" + arch)
    s = prog.fn("lzma_simple_coder_init", "simple_coder.c")
    ck.saw_function(s)
    g = guard.find_test(s, "field:now_pos&var:alignment", "F")
    ck.ob("C15-WIN", "start-offset-aligned", bool(g), common.where(s),
          "start_offset & (alignment - 1) rejected", key="WIN:start-offset")
    ck.floor("C15-WIN", 16)


def check_scan(ck, prog):
    """Every BCJ filter scans the positions p (multiples of its alignment) for which a whole instruction window fits:
    p + W <= size.  The eight filters write that in three ways -- `size &= ~(A-1); for (i = 0; i < size; i += A)` (W = A),
    `if (size < W) return 0; size -= W; for (i = 0; i <= size; ...)`, and x86's `limit = size - W; while (pos <= limit)`.
    Each is brought to the form `p + K <= size` / `p + K < size` and K and the relation are compared with the window of
    the architecture.  One position less (the last instruction of a file is left unconverted) still round-trips inside one
    build, but the bytes differ from the reference filter, i.e. files of other implementations do not decode."""
    ck.rule("C15-SCAN", "scan loops visit exactly the positions p with p + window <= size")
    for arch in FILTERS:
        fns = [arch + "_code"] if arch != "riscv" else ["riscv_encode", "riscv_decode"]
        W = B.ARCH[arch]["window"]
        for nm in fns:
            f = prog.fn(nm, arch + ".c")
            ck.saw_function(f)
            mask = sub = lim = None
            for b, i, e in f.iter_elems():
                e_ = ex.deref(e)
                for (l, r, op, n) in ex.writes(e):
                    if ex.show(l) == "size" and op == "&=" and ex.const_val(r) is not None:
                        mask = ((~ex.const_val(r)) & 0xFFFFFFFFFFFFFFFF) + 1
                    if ex.show(l) == "size" and op == "-=" and ex.const_val(r) is not None:
                        sub = ex.const_val(r)
                if e_.get("k") == "decl" and e_.get("n") == "limit" and e_.get("init") is not None:
                    i0 = ex.strip(e_["init"])
                    if i0.get("k") == "bin" and i0["op"] == "-" and ex.show(i0["l"]) == "size" and ex.const_val(i0["r"]) is not None:
                        lim = ex.const_val(i0["r"])
            conds = []
            for b in f.blocks.values():
                if b.term and "cond" in b.term and b.term.get("kind") in ("ForStmt", "WhileStmt"):
                    c = ex.strip(b.term["cond"])
                    if c.get("k") == "bin" and c["op"] in ("<", "<=") and ex.show(c["r"]) in ("size", "limit") and \
                            ex.strip(c["l"]).get("k") == "var":
                        conds.append(c)
            if len(conds) != 1:
                raise AnalysisBroken("%s: expected one scan loop bounded by size/limit, found %d" % (nm, len(conds)))
            c = conds[0]
            # p REL (size - K)   with K from the adjustment;  a masked size with step A means p + A <= size0
            if ex.show(c["r"]) == "limit":
                if lim is None:
                    raise AnalysisBroken("%s: `limit = size - K` not found" % nm)
                K, rel = lim, c["op"]
            elif sub is not None:
                K, rel = sub, c["op"]
            elif mask is not None:
                K, rel = mask, ("<=" if c["op"] == "<" else "<+")      # i < floor_A(size)  <=>  i + A <= size
            else:
                raise AnalysisBroken("%s: no adjustment of size before the scan loop" % nm)
            ok = rel == "<=" and K == W
            ck.ob("C15-SCAN", nm, ok, common.where(f, c),
                  "%s: scans p with p + %d <= size" % (nm, K) if ok else
                  "%s(): the scan loop `%s` visits the positions with p + %d %s size, the filter is defined for p + %d <= size: %s"
                  % (nm, ex.show(c), K, "<" if rel == "<" else rel, W,
                     "an instruction in the last %d bytes is never converted, so the output differs from the reference "
                     "filter (files made by other xz versions fail to decode)" % W if (rel == "<" or K > W) else
                     "the loop reads beyond the data it was given"), key="SCAN:" + nm)
    ck.floor("C15-SCAN", 9)


def check_one(ck, prog):
    ck.rule("C15-ONE", "one-shot x86 functions start from the same state as the streaming init")
    ini = prog.fn("x86_coder_init", "x86.c")
    st = {ex.show(l): ex.const_val(r) for b, i, e in ini.iter_elems() for (l, r, op, n) in ex.writes(e)
          if "prev_" in ex.show(l)}
    want = {"simple->prev_mask": 0, "simple->prev_pos": 4294967291}
    ck.ob("C15-ONE", "stream-init", st == want, common.where(ini), "x86_coder_init: %s" % st, key="ONE:stream-init")
    for nm in ("lzma_bcj_x86_encode", "lzma_bcj_x86_decode"):
        f = prog.fn(nm, "x86.c", required=False)
        if f is None:
            continue
        ck.saw_function(f)
        got = None
        for b, i, e in f.iter_elems():
            if e.get("k") == "decl" and e["n"] == "simple" and e.get("init") is not None:
                ini_ = ex.strip(e["init"])
                got = dict(zip(ini_.get("fields", []), [ex.const_val(x) for x in ini_["e"]]))
        ck.ob("C15-ONE", nm, got == {"prev_mask": 0, "prev_pos": 4294967291}, common.where(f),
              "%s: initial state %s" % (nm, got), key="ONE:" + nm)
        c = [c for b, i, e in f.iter_elems() for c in ex.calls(e, into_refs=True) if c.get("fn") == "x86_code"]
        enc = ex.const_val(c[0]["args"][2]) if c else None
        ck.ob("C15-ONE", nm + ":direction", enc == (1 if nm.endswith("encode") else 0), common.where(f),
              "%s calls x86_code(is_encoder=%s)" % (nm, enc), key="ONE:%s:direction" % nm)
    # the other one-shot functions: same *_code function as the streaming coder, start offset forced to the
    # filter's alignment (the streaming init rejects unaligned offsets instead)
    for nm, code, direction, align in (("lzma_bcj_arm64_encode", "arm64_code", 1, 4),
                                       ("lzma_bcj_arm64_decode", "arm64_code", 0, 4),
                                       ("lzma_bcj_riscv_encode", "riscv_encode", 1, 2),
                                       ("lzma_bcj_riscv_decode", "riscv_decode", 0, 2)):
        f = prog.fn(nm, nm.split("_")[2] + ".c", required=False)
        if f is None:
            continue
        ck.saw_function(f)
        c = [c for b, i, e in f.iter_elems() for c in ex.calls(e, into_refs=True) if c.get("fn") == code]
        ok = bool(c) and all(ex.const_val(x["args"][2]) == direction for x in c)
        ck.ob("C15-ONE", nm + ":code", ok, common.where(f), "%s calls %s(is_encoder=%d)" % (nm, code, direction),
              key="ONE:%s:code" % nm)
        masks = [ex.const_val(r) for b, i, e in f.iter_elems() for (l, r, op, n) in ex.writes(e)
                 if ex.show(l) == "start_offset" and op == "&="]
        want = (~(align - 1)) & 0xFFFFFFFF
        ck.ob("C15-ONE", nm + ":align", [m & 0xFFFFFFFF for m in masks if m is not None] == [want], common.where(f),
              "%s aligns start_offset with mask %s (reference %#x)" % (nm, [hex(m & 0xFFFFFFFF) for m in masks if m is not None], want),
              key="ONE:%s:align" % nm)
    ck.floor("C15-ONE", 5)


STRIDES = {("arm_code", "i"): [4], ("armthumb_code", "i"): [2, 2], ("powerpc_code", "i"): [4],
           ("sparc_code", "i"): [4], ("arm64_code", "i"): [4], ("ia64_code", "i"): [16],
           ("riscv_encode", "i"): [2, 2, 2, 4, 6], ("riscv_decode", "i"): [2, 2, 2, 4, 6],
           ("x86_code", "buffer_pos"): [1, 1, 5]}


def check_stride(ck, prog):
    ck.rule("C15-STRIDE", "instruction stride and the bytes skipped after a conversion equal the reference")
    for (fn_, var), want in STRIDES.items():
        f = prog.fn(fn_, ".c", required=False)
        if f is None:
            raise AnalysisBroken("filter function %s vanished" % fn_)
        got = []
        for b, i, e in f.iter_elems():
            e = ex.deref(e)
            if e.get("k") == "asg" and ex.show(e["l"]) == var and e["op"] == "+=":
                env = {}
                try:
                    got.append(eval_cond(e["r"], env))
                except (AnalysisBroken, KeyError):
                    got.append(None)
            elif e.get("k") == "asg" and ex.show(e["l"]) == var and e["op"] != "=":
                got.append(None)
            elif e.get("k") == "un" and e["op"] in ("pre++", "post++") and ex.show(e["e"]) == var:
                got.append(1)
            elif e.get("k") == "un" and e["op"] in ("pre--", "post--") and ex.show(e["e"]) == var:
                got.append(None)
        ok = None not in got and sorted(got) == want
        ck.ob("C15-STRIDE", fn_, ok, common.where(f),
              "%s advances %s by %s (reference %s)" % (fn_, var, sorted(got, key=lambda x: (x is None, x)), want),
              key="STRIDE:" + fn_.replace("_code", ""))
    ck.floor("C15-STRIDE", 9)


def check_delta(ck, prog, rule="C15-DELTA"):
    ck.rule(rule, "delta loops: identical history indexing; encoder stores input, decoder stores output")
    fns = [("copy_and_encode", "delta_encoder.c"), ("encode_in_place", "delta_encoder.c"),
           ("decode_buffer", "delta_decoder.c")]
    idx_r, idx_w = set(), set()
    info = {}

    def norm_index(n):
        """`X & 255` with X a commutative sum -> canonical text."""
        n = ex.strip(n)
        if n.get("k") == "bin" and n["op"] == "&":
            l, r = n["l"], n["r"]
            if ex.const_val(l) is not None:
                l, r = r, l
            if ex.const_val(r) == 255:
                return " + ".join(sorted(("-" if s_ < 0 else "") + t for s_, t in flatten(l))) + " & 255"
        return ex.show(n)
    for nm, file in fns:
        f = prog.fn(nm, file)
        ck.saw_function(f)
        reads, writes, stored = [], [], []
        for b, i, e in f.iter_elems():
            for (l, r, op, n) in ex.writes(e):
                ls = ex.strip(l)
                if ls is not None and ls.get("k") == "idx" and "history" in ex.show(ls["b"]):
                    writes.append(norm_index(ls["i"]))
                    stored.append(ex.show(r))
            for x in ex.walk(e, into_refs=False):
                if x.get("k") == "idx" and "history" in ex.show(x["b"]):
                    reads.append(norm_index(x["i"]))
        rd = [r for r in reads if r not in writes]
        info[nm] = (rd, writes, stored)
        idx_r |= set(rd)
        idx_w |= set(writes)
    ck.ob(rule, "same-read-index", idx_r == {"coder->pos + distance & 255"}, "src/liblzma/delta",
          "history read index in all three loops: %s" % sorted(idx_r), key="DELTA:read-index")
    ck.ob(rule, "same-write-index", idx_w == {"coder->pos-- & 255"}, "src/liblzma/delta",
          "history write index in all three loops: %s" % sorted(idx_w), key="DELTA:write-index")
    ck.ob(rule, "encoder-stores-input", info["copy_and_encode"][2] == ["in[i]"] and
          info["encode_in_place"][2] == ["buffer[i]"], "src/liblzma/delta/delta_encoder.c",
          "encoders store the original byte: %s / %s" % (info["copy_and_encode"][2], info["encode_in_place"][2]),
          key="DELTA:enc-store")
    # encode_in_place: history store precedes the in-place subtraction; decoder: addition precedes the store
    f = prog.fn("encode_in_place", "delta_encoder.c")
    order = [ex.show(n) for b, i, e in sorted(f.iter_elems(), key=lambda t: (ex.line(t[2]) or 0))
             for (l, r, op, n) in ex.writes(e) if "buffer[i]" in ex.show(n) or "history" in ex.show(n)]
    okp = len(order) >= 2 and "history" in order[0] and order[-1].startswith("buffer[i] -=")
    ck.ob(rule, "in-place-order", okp, common.where(f),
          "encode_in_place saves the original byte to history before overwriting it: %s" % order,
          key="DELTA:in-place-order")
    f = prog.fn("decode_buffer", "delta_decoder.c")
    order = [ex.show(n) for b, i, e in sorted(f.iter_elems(), key=lambda t: (ex.line(t[2]) or 0))
             for (l, r, op, n) in ex.writes(e) if "buffer[i]" in ex.show(n) or "history" in ex.show(n)]
    okd = len(order) >= 2 and order[0].startswith("buffer[i] +=") and "history" in order[1] and \
        info["decode_buffer"][2] == ["buffer[i]"]
    ck.ob(rule, "decoder-order", okd, common.where(f),
          "decoder adds the history byte, then stores the reconstructed byte: %s" % order, key="DELTA:dec-order")
    # props
    pe = prog.fn("lzma_delta_props_encode", "delta_encoder.c")
    pd = prog.fn("lzma_delta_props_decode", "delta_decoder.c")
    we = [ex.show(n) for b, i, e in pe.iter_elems() for (l, r, op, n) in ex.writes(e) if ex.show(l) == "out[0]"]
    wd = [ex.show(n) for b, i, e in pd.iter_elems() for (l, r, op, n) in ex.writes(e) if "dist" in ex.show(l)]
    np_ = lambda w: w.replace("(", "").replace(")", "")
    ck.ob(rule, "props", [np_(w) for w in we] == ["out[0] = opt->dist - 1"] and
          any(np_(w).endswith("dist = props[0] + 1") for w in wd),
          common.where(pe), "props: %s / %s" % (we, wd), key="DELTA:props")
    # the decoder cannot follow a change of the encoder's distance or history in the middle of a stream (the Filter Flags were
    # written when the Block started): delta_encoder_update() leaves the coder's own state alone and only forwards
    fu = prog.fn("delta_encoder_update", "delta_encoder.c")
    ck.saw_function(fu)
    touched = sorted({ex.show(l) for b, i, e in fu.iter_elems() for (l, r, op, n) in ex.writes(e)
                      if any(x.get("k") == "mem" and x.get("rec") == "lzma_delta_coder" and x.get("f") != "next"
                             for x in ex.walk(l))} |
                     {"%s(%s, ...)" % (c.get("m") or c.get("fn"), ex.show(c["args"][0])) for b, i, e in fu.iter_elems()
                      for c in ex.calls(e, into_refs=False)
                      if c.get("fn") in ("memset", "memcpy", "memmove", "__builtin_memset", "__builtin_memcpy") and c["args"]
                      and any(x.get("k") == "mem" and x.get("rec") == "lzma_delta_coder" for x in ex.walk(c["args"][0]))})
    fwd = any(c.get("fn") == "lzma_next_filter_update" for b, i, e in fu.iter_elems() for c in ex.calls(e, into_refs=False))
    ck.ob(rule, "update-keeps-state", not touched and fwd, common.where(fu),
          "delta_encoder_update only forwards to the next filter; distance, pos and history are untouched" if not touched and fwd else
          "delta_encoder_update() modifies %s in the middle of a stream: the Delta decoder keeps its distance and history (nothing "
          "in the stream tells it otherwise), so everything encoded after lzma_filters_update() decodes to different bytes" % touched
          if touched else "delta_encoder_update() does not forward to lzma_next_filter_update()", key="DELTA:update-keeps-state")
    ck.floor(rule, 7)


def shortest_path(f, src, dst_pred, avoid=()):
    """Blocks of a shortest CFG path from src to the first block satisfying dst_pred."""
    from collections import deque
    prev = {src: None}
    q = deque([src])
    while q:
        b = q.popleft()
        if dst_pred(b):
            out = []
            while b is not None:
                out.append(b)
                b = prev[b]
            return out[::-1]
        for s_ in cfg.succs(f, b):
            if s_ not in prev and s_ not in avoid:
                prev[s_] = b
                q.append(s_)
    return None


def has_store(f, bid):
    for e in f.blocks[bid].elems:
        if e is None:
            continue
        e = ex.deref(e)
        if e.get("k") == "call" and (e.get("fn") in ("write32le", "write32be") or
                                     e.get("m") in ("write32le", "write32be")):
            return True
        for (l, r, op, n) in ex.writes(e):
            ls = ex.strip(l)
            if ls is not None and ls.get("k") == "idx" and ex.show(ls["b"]) == "buffer":
                return True
    return False


def dsym(scale, width=32):
    return [0] * scale + [("D", j) for j in range(scale, width)] + [0] * (bits.W - width), 32


def vec_eq(got, want, width):
    g = list(got[0][:width])
    w = list(want) + [0] * (width - len(want))
    diffs = [j for j in range(width) if g[j] != w[j]]
    return diffs


def show_bit(x):
    if x in (0, 1):
        return str(x)
    if isinstance(x, frozenset):
        return "?"
    if x[0] == "~":
        return "~" + show_bit(x[1])
    if x[0] == "B":
        return "byte%d.bit%d" % (x[1], x[2])
    if x[0] == "D":
        return "addr.bit%d" % x[1]
    return str(x)


def bits_site(ck, f, name, spec, start, pivot_block, pivot_index, after_block, subst, index_var):
    """Evaluate gather (state at the pivot) and scatter (stores after it with the sum replaced by D)."""
    env = bits.Env(f, index_var=index_var)
    path = shortest_path(f, start, lambda b: b == pivot_block)
    if path is None:
        raise AnalysisBroken("%s: no path from the loop body to the conversion" % name)
    try:
        for b in path[:-1]:
            env.run_block(f.blocks[b])
        env.run_block(f.blocks[pivot_block], upto=pivot_index)
        gv = env.vars.get(subst["gather"])
        if gv is None:
            raise AnalysisBroken("%s: variable %s has no value at the conversion" % (name, subst["gather"]))
        d = vec_eq(gv, spec["gather"], 32)
        ck.ob("C15-BITS", name + ":gather", not d, common.where(f),
              "%s: address field gathered from the instruction bytes as in the reference (32 bits routed)" % name
              if not d else "%s: bit %d of the gathered value is %s, reference %s" % (
                  name, d[0], show_bit(gv[0][d[0]]), show_bit((spec["gather"] + [0] * 32)[d[0]])),
              key="BITS:%s:gather" % name)
        # scatter
        env.stores = []
        for var, val in subst["set"].items():
            env.vars[var] = val
        if after_block == pivot_block:
            for e in f.blocks[pivot_block].elems[pivot_index + 1:]:
                if e is not None:
                    env.stmt(e)
        else:
            p2 = shortest_path(f, after_block, lambda b: has_store(f, b))
            if p2 is None:
                raise AnalysisBroken("%s: no store to the buffer after the conversion" % name)
            for b in p2:
                env.run_block(f.blocks[b])
    except bits.Unsupported as e_:
        ck.ob("C15-BITS", name + ":shape", False, common.where(f),
              "%s: conversion code uses a construct the bit-routing evaluator cannot follow: %s" % (name, e_),
              key="BITS:%s:shape" % name)
        return
    stored = sorted(set(env.stores))
    want = spec["scatter"]
    ck.ob("C15-BITS", name + ":stored-bytes", stored == sorted(want), common.where(f),
          "%s: bytes rewritten %s (reference %s)" % (name, stored, sorted(want)), key="BITS:%s:stored" % name)
    for k in sorted(want):
        if k not in env.mem:
            continue
        d = vec_eq(env.mem[k], want[k], 8)
        ck.ob("C15-BITS", "%s:scatter:byte%d" % (name, k), not d, common.where(f),
              "%s: byte %d written from the converted address as in the reference" % (name, k) if not d else
              "%s: bit %d of stored byte %d is %s, reference %s" % (name, d[0], k, show_bit(env.mem[k][0][d[0]]),
                                                                   show_bit(want[k][d[0]])),
              key="BITS:%s:scatter:%d" % (name, k))


def encoder_branches(f):
    out = []
    for b in f.blocks.values():
        t = b.term
        if t and "cond" in t and "is_encoder" in ex.show(t["cond"]) and len(b.succs) == 2:
            out.append(b)
    return sorted(out, key=lambda b: b.term["ln"])


def check_bits(ck, prog):
    ck.rule("C15-BITS", "bit routing instruction bytes -> address (gather) and address -> stored bytes (scatter), "
                        "evaluated exactly over shifts/masks/ORs, equals the reference transform")
    prob = B.self_check()
    ck.ob("C15-BITS", "reference-self-check", not prob, "/verif/spec/bcj.py",
          "reference routing tables are mutually inverse" if not prob else "; ".join(prob), key="BITS:self")
    for arch in ("arm", "armthumb", "powerpc", "sparc", "x86"):
        f = prog.fn(arch + "_code", arch + ".c")
        brs = encoder_branches(f)
        if len(brs) != 1:
            raise AnalysisBroken("%s_code: expected one branch on is_encoder, found %d" % (arch, len(brs)))
        br = brs[0]
        spec = B.ROUTING[arch]
        start = loop_body_entry(f) if arch != "x86" else None
        if arch == "x86":
            for b in f.blocks.values():
                if b.term and b.term.get("kind") == "WhileStmt" and "cond" in b.term and \
                        "limit" in ex.show(b.term["cond"]):
                    start = b.succs[0]
        if start is None:
            raise AnalysisBroken("%s_code: loop not recognised" % arch)
        tb = f.blocks[br.succs[0]]
        join = cfg.succs(f, tb.id)[0]
        bits_site(ck, f, arch, spec, start, br.id, len(br.elems), join,
                  {"gather": "src", "set": {"dest": dsym(spec["scale"])}},
                  "buffer_pos" if arch == "x86" else "i")
    f = prog.fn("arm64_code", "arm64.c")
    brs = encoder_branches(f)
    if len(brs) != 2:
        raise AnalysisBroken("arm64_code: expected two branches on is_encoder, found %d" % len(brs))
    start = loop_body_entry(f)
    for br, nm in zip(brs, ("arm64-bl", "arm64-adrp")):
        spec = B.ROUTING[nm]
        # pc >>= N precedes the branch
        sh = [ex.const_val(r) for e in br.elems if e for (l, r, op, n) in ex.writes(e)
              if ex.show(l) == "pc" and op == ">>="]
        ck.ob("C15-BITS", nm + ":pc-shift", sh == [spec["pc_shift"]], common.where(f),
              "%s: position counted in units of 2^%s bytes (reference 2^%d)" % (nm, sh, spec["pc_shift"]),
              key="BITS:%s:pc-shift" % nm)
        taken = f.blocks[br.succs[0]]
        join = cfg.succs(f, taken.id)[0]
        bits_site(ck, f, nm, spec, start, br.id, len(br.elems), join,
                  {"gather": "src", "set": {"src": bits.const(0), "pc": dsym(0)}}, "i")
    for fn_, nm, op_ in (("riscv_encode", "riscv-jal-enc", "+="), ("riscv_decode", "riscv-jal-dec", "-=")):
        f = prog.fn(fn_, "riscv.c", required=False)
        if f is None:
            continue
        piv = None
        for b, i, e in f.iter_elems():
            e = ex.deref(e)
            if e.get("k") == "asg" and e["op"] == op_ and ex.show(e["l"]) == "addr" and ex.show(e["r"]) == "pc":
                piv = (b.id, i)
        if piv is None:
            raise AnalysisBroken("%s: `addr %s pc` not found" % (fn_, op_))
        spec = B.ROUTING[nm]
        bits_site(ck, f, nm, spec, loop_body_entry(f), piv[0], piv[1], piv[0],
                  {"gather": "addr", "set": {"addr": dsym(spec["scale"])}}, "i")
    # ARM64 ADRP range gate: converts exactly the values whose bits 17..20 are all equal (+/-512 MiB)
    f = prog.fn("arm64_code", "arm64.c")
    gate = [b.term["cond"] for b in f.blocks.values() if b.term and "cond" in b.term and
            "src" in ex.show(b.term["cond"])]
    ok = len(gate) == 1
    n = 0
    if ok:
        for hi in range(16):
            for low in (0, 0x1FFFF, 0x15555):
                v = (hi << 17) | low
                skipped = bool(eval_cond(gate[0], {"src": v}))
                n += 1
                if skipped != (hi not in (0, 15)):
                    ok = False
    ck.ob("C15-BITS", "arm64-adrp:range-gate", ok, common.where(f),
          "ADRP converted exactly when bits 17..20 of the 21-bit immediate are all equal (%d cases)" % n,
          key="BITS:arm64-adrp:gate")
    ck.floor("C15-BITS", 40)


def check_end_after_drain(ck, prog, rule="C15-PROTO"):
    """simple_code() first drains what is left in coder->buffer (lzma_bufcpy from coder->buffer).  If the next coder has
    already finished (end_was_reached), the drained bytes were the last ones: the function has to consult the flag there and
    return LZMA_STREAM_END.  Every path from that drain to copy_or_code() (asking the next coder for more) must therefore
    pass a test of end_was_reached; otherwise the finished next coder is called again and the end of the stream is
    reported differently depending on whether the last bytes fitted into the caller's buffer."""
    f = prog.fn("simple_code", "simple_coder.c")
    ck.saw_function(f)
    drains = [b.id for b, i, e in f.iter_elems() for c in ex.calls(e, into_refs=True)
              if c.get("fn") == "lzma_bufcpy" and c["args"] and ex.show(c["args"][0]) == "coder->buffer"]
    asks = [b.id for b, i, e in f.iter_elems() for c in ex.calls(e, into_refs=True) if c.get("fn") == "copy_or_code"]
    tests = {b.id for b in f.blocks.values() if b.term and "cond" in b.term and "end_was_reached" in ex.show(b.term["cond"])
             and b.term.get("kind") != "__assert"}
    # assertion tests do not count: with NDEBUG they vanish
    tests = {t for t in tests if not any(
        f.blocks[y].elems and any(cc.get("fn") == "__assert_fail" for e in f.blocks[y].elems if e is not None
                                  for cc in ex.calls(e, into_refs=True))
        for y in f.blocks[t].succs if y is not None)}
    if not drains or not asks:
        raise AnalysisBroken("simple_code: drain of coder->buffer / copy_or_code() call not found")
    first = max(drains)         # clang numbers blocks from the exit: the largest id is the first drain in program order
    seen, st, open_ = set(), [y for y in f.blocks[first].succs if y is not None], False
    while st:
        x = st.pop()
        if x in seen or x in tests:
            continue
        seen.add(x)
        if x in asks:
            open_ = True
            break
        st.extend(y for y in f.blocks[x].succs if y is not None)
    ck.ob(rule, "end-checked-after-drain", not open_, common.where(f),
          "simple_code: after draining coder->buffer the end flag is tested before the next coder is asked for more" if not open_ else
          "simple_code(): after the already-filtered bytes were drained from coder->buffer, copy_or_code() can be reached "
          "without a test of coder->end_was_reached: when the next coder had already finished, it is called again instead of "
          "returning LZMA_STREAM_END, so the end of the stream depends on how the caller's output buffer was sliced",
          key="PROTO:end-checked-after-drain")


def check_compact(ck, prog, rule="C15-PROTO"):
    """When simple_code() compacts its buffer -- memmove(coder->buffer, coder->buffer + X, ...) -- the bookkeeping has to
    move by the same X: `coder->size -= X` (and pos = 0).  With any other amount the region [pos, size) no longer describes
    the bytes that were moved: bytes are emitted twice or never, depending on how small the caller's output buffers are."""
    f = prog.fn("simple_code", "simple_coder.c")
    ck.saw_function(f)
    n = 0
    for b, i, e in f.iter_elems():
        for c in ex.calls(e, into_refs=True):
            if c.get("fn") not in ("memmove", "__builtin_memmove", "__builtin___memmove_chk") or len(c["args"]) < 2:
                continue
            if ex.show(c["args"][0]) != "coder->buffer":
                continue
            src = ex.strip(c["args"][1])
            if not (src.get("k") == "bin" and src["op"] == "+" and ex.show(src["l"]) == "coder->buffer"):
                continue
            X = ex.show(src["r"])
            def sub_amount(l, r, op):
                """X of `coder->size -= X` / `coder->size = coder->size - X`, else None"""
                if ex.show(l) != "coder->size" or r is None:
                    return None
                if op == "-=":
                    return ex.show(r)
                rs = ex.strip(r)
                while rs is not None and rs.get("k") == "paren":
                    rs = ex.strip(rs["e"])
                if op == "=" and rs is not None and rs.get("k") == "bin" and rs["op"] == "-" and ex.show(rs["l"]) == "coder->size":
                    return ex.show(rs["r"])
                return None
            subs = [sub_amount(l, r, op) for bb, ii, ee in f.iter_elems() if bb.id == b.id
                    for (l, r, op, nd) in ex.writes(ee) if sub_amount(l, r, op) is not None]
            n += 1
            ok = subs == [X]
            ck.ob(rule, "compact-by-same-amount", ok, common.where(f, c),
                  "simple_code: memmove from buffer + %s and size -= %s" % (X, X) if ok else
                  "simple_code(): the buffer is compacted with memmove(coder->buffer, coder->buffer + %s, ...) but coder->size is "
                  "reduced by %s: [pos, size) then covers bytes that are not there (data duplicated or lost when the output is "
                  "consumed in small pieces)" % (X, subs or "nothing"), key="PROTO:compact-by-same-amount")
            # ... and by the value X had when the bytes were moved: no store to X between the memmove and the subtraction
            order = [(ii, "sub" if sub_amount(l, r, op) is not None else "reset")
                     for bb, ii, ee in f.iter_elems() if bb.id == b.id
                     for (l, r, op, nd) in ex.writes(ee) if sub_amount(l, r, op) is not None or ex.show(l) == X]
            order.sort()
            sub_i = [ii for ii, w in order if w == "sub"]
            early = [ii for ii, w in order if w == "reset" and sub_i and ii < sub_i[0]]
            ck.ob(rule, "compact-before-reset", not early, common.where(f, c),
                  "simple_code: size -= %s is computed before %s is reset" % (X, X) if not early else
                  "simple_code(): %s is overwritten before `coder->size -= %s` is evaluated: the subtraction uses the new value, so "
                  "coder->size still counts the bytes that memmove() discarded and stale bytes of the buffer are filtered and "
                  "emitted again" % (X, X), key="PROTO:compact-before-reset")
    if n < 1:
        raise AnalysisBroken("simple_code: compaction memmove not found")


def check_eof_needs_input(ck, prog, rule="C15-PROTO"):
    """copy_or_code(): as the last coder of a chain it decides itself that the end was reached.  LZMA_FINISH alone does not
    mean that: lzma_bufcpy() may have stopped because the output was full.  The store end_was_reached = true is reached only
    through `*in_pos == in_size` (or, with a next coder, through its LZMA_STREAM_END)."""
    from . import oblig
    from .oblig import MP
    oblig.evaluate(ck, prog, rule, [
        MP("eof-needs-all-input", "copy_or_code", "simple_coder.c",
           [("cmp", "deref:in_pos", "var:in_size"), ("cmp", "var:ret", "enum:LZMA_STREAM_END")],
           ("write", "field:end_was_reached"), plain=True,
           why="end_was_reached is set only when all input was copied (or the next coder finished): otherwise simple_code() flushes "
               "its held-back bytes unfiltered and returns LZMA_STREAM_END while input remains, whenever the output buffer filled first"),
    ], floor=None)


def check_proto(ck, prog):
    from . import oblig
    from .oblig import MP
    SC = "simple_coder.c"
    table = [
        MP("stream-end-needs-eof", "simple_code", SC, [("test", "field:end_was_reached", "T")],
           ("ret", ("LZMA_STREAM_END",)), plain=True,
           why="LZMA_STREAM_END only after the end of the input was seen (everything flushed)"),
        MP("sync-flush-rejected", "simple_code", SC, [("rel", "var:action", "enum:LZMA_SYNC_FLUSH", ("==",), "F")],
           ("call", "call_filter"), plain=True, bypass=[],
           why="filtering never happens for LZMA_SYNC_FLUSH (held-back bytes could not be flushed)"),
    ]
    oblig.evaluate(ck, prog, "C15-PROTO", table, floor=None)
    check_eof_needs_input(ck, prog)
    f = prog.fn("call_filter", SC)
    ck.saw_function(f)
    adv = [(ex.show(l), op, ex.show(r)) for b, i, e in f.iter_elems() for (l, r, op, n) in ex.writes(e)
           if "now_pos" in ex.show(l)]
    calls_ = [c for b, i, e in f.iter_elems() for c in ex.calls(e, into_refs=True) if "callee" in c and
              "filter" in ex.show(c["callee"])]
    okc = bool(calls_) and all(ex.show(c["args"][1]) == "coder->now_pos" and
                               ex.show(c["args"][2]) == "coder->is_encoder" for c in calls_)
    ck.ob("C15-PROTO", "now-pos-advances", adv == [("coder->now_pos", "+=", "filtered")] and len(f.blocks) <= 3,
          common.where(f), "call_filter: program counter advances by exactly the filtered byte count on every call: %s"
          % adv, key="PROTO:now-pos")
    ck.ob("C15-PROTO", "filter-args", okc, common.where(f),
          "call_filter passes coder->now_pos and coder->is_encoder to the filter function", key="PROTO:filter-args")
    # at end of input the unfiltered tail is flushed as is: `if (end_was_reached) filtered = size`
    f = prog.fn("simple_code", SC)
    gs = guard.find_test(f, "field:end_was_reached", "T")
    flushed = False
    for g in gs:
        blk = f.blocks[g.bid]
        tb = f.blocks.get(blk.succs[0] if g.pass_label == "T" else blk.succs[1])
        if tb is None:
            continue
        for e in tb.elems:
            if e is None:
                continue
            for (l, r, op, n) in ex.writes(e):
                if ex.show(l) == "coder->filtered" and ex.show(r) == "coder->size" and op == "=":
                    flushed = True
    ck.ob("C15-PROTO", "tail-flushed-at-eof", flushed, common.where(f),
          "simple_code: at end of input the held-back tail is released unfiltered (filtered = size)",
          key="PROTO:tail-flush")
    # the bytes kept in coder->buffer are always offered to the filter before they are flushed; end_was_reached only
    # decides how many of them are released
    cf = [b for b, i, e in f.iter_elems() for c in ex.calls(e, into_refs=True)
          if c.get("fn") == "call_filter" and c["args"] and len(c["args"]) > 1 and ex.show(c["args"][1]) == "coder->buffer"]
    doms_ = cfg.dominators(f)
    dep = False
    for b in cf:
        for d in doms_.get(b.id, ()):
            blk = f.blocks[d]
            if blk.term and "cond" in blk.term and len(blk.succs) == 2 and "end_was_reached" in ex.show(blk.term["cond"]):
                for s_ in blk.succs:
                    other = [x for x in blk.succs if x != s_]
                    if s_ is not None and (s_ == b.id or s_ in doms_.get(b.id, ())) and other and other[0] != s_:
                        # b is reached through only one edge of a test of end_was_reached
                        ob_ = f.blocks.get(other[0])
                        dead = ob_ is not None and other[0] != f.exit and not [x for x in ob_.succs if x is not None]
                        if not (other[0] == b.id or other[0] in doms_.get(b.id, ())) and not dead:
                            dep = True
    ck.ob("C15-PROTO", "buffer-always-filtered", bool(cf) and not dep, common.where(f),
          "simple_code: call_filter(coder->buffer) does not depend on end_was_reached" if cf and not dep else
          "simple_code(): call_filter(coder, coder->buffer, ...) is skipped when end_was_reached is set: the last bytes of the "
          "stream that were waiting in coder->buffer are released unfiltered, so the result depends on how the output was "
          "sliced", key="PROTO:buffer-always-filtered")
    check_end_after_drain(ck, prog)
    check_compact(ck, prog)
    ck.floor("C15-PROTO", 8)


def check_post(ck, prog):
    """When the delta filter is not the last in the chain it transforms, in place, what the next coder wrote during the
    same call.  Every way out of the function after that call has to pass the transform (or the guard that nothing was
    written): the call that returns LZMA_STREAM_END delivers the last bytes too."""
    ck.rule("C15-POST", "delta coders: every return after the next coder's call passes the in-place transform or its "
            "nothing-written guard")
    for fn, file, post in (("delta_encode", "delta_encoder.c", "encode_in_place"), ("delta_decode", "delta_decoder.c", "decode_buffer")):
        f = prog.fn(fn, file)
        ck.saw_function(f)
        calls = [b.id for b, i, e in f.iter_elems() for c in ex.calls(e, into_refs=False)
                 if c.get("callee") is not None and ex.show(c["callee"]).endswith("next.code")]
        pb = {b.id for b, i, e in f.iter_elems() for c in ex.calls(e, into_refs=False) if c.get("fn") == post}
        if not calls or not pb:
            raise AnalysisBroken("%s: call of the next coder / %s() not found" % (fn, post))
        guards = {b.id for b in f.blocks.values() if b.term and "cond" in b.term and
                  ex.show(ex.strip(b.term["cond"])).replace(" ", "") in ("size>0", "size!=0")}
        seen, st, hit = set(), [y for y in f.blocks[calls[0]].succs if y is not None], None
        if calls[0] in guards:
            # the guard ends the block of the call: true edge -> transform, false edge -> nothing was written
            t_ = f.blocks[calls[0]].succs[0]
            st = [t_] if t_ is not None else []
        while st:
            x = st.pop()
            if x in seen or x in pb or x in guards or x is None:
                continue
            seen.add(x)
            if x == f.exit or any(e is not None and ex.deref(e).get("k") == "ret" for e in f.blocks[x].elems):
                hit = x
                break
            st.extend(f.blocks[x].succs)
        ck.ob("C15-POST", fn, hit is None, common.where(f),
              "%s: %s() (or `size > 0` false) on every path from the next coder's call to a return" % (fn, post) if hit is None else
              "%s(): a return (block %s) is reachable after the next coder's call without %s(): the bytes that call produced "
              "(with LZMA_STREAM_END: the last bytes of the stream) leave the filter untransformed" % (fn, hit, post),
              key="POST:" + fn)
    ck.floor("C15-POST", 2)


def run(ck):
    ck.explanation = (
        "Direction symmetry of every BCJ filter function (the flag only flips the sign of the pc term), exhaustive "
        "evaluation of the instruction-detection predicates over all values of the bytes they read against ISA "
        "reference predicates, window/alignment arguments vs what the loops read and the format specification, one-shot "
        "vs streaming initial state, and structural agreement of the three delta loops.")
    ck.not_decided = ("the inverse property and size preservation for all inputs and slicings (simple_code's buffer "
                      "protocol), x86 prev_mask evolution, RISC-V immediate shuffles, IA-64 slot arithmetic.")
    prog = common.program(ck, ("liblzma",), files=("/simple/", "/delta/"))
    check_sym(ck, prog)
    check_opc(ck, prog)
    check_win(ck, prog)
    check_scan(ck, prog)
    check_one(ck, prog)
    check_delta(ck, prog)
    check_stride(ck, prog)
    check_proto(ck, prog)
    check_post(ck, prog)
    # a BCJ/delta coder that is re-used for the next Block starts from the given start offset / an empty history
    from . import reinit
    ck.rule("C15-INITCONS", "BCJ/delta coder members that the init function sets on some paths (now_pos, history, ...) are "
                            "set on every path returning LZMA_OK")
    prog_all = common.program(ck, ("liblzma",))
    reinit.check_init_consistency(ck, prog_all, "C15-INITCONS", files={"simple_coder.c", "delta_common.c", "delta_encoder.c",
                                                                       "delta_decoder.c"})
    ck.floor("C15-INITCONS", 4)
    ck.rule("C15-READFIRST", "BCJ/delta: what the coding function can read before storing to it is stored by the init function on every path returning LZMA_OK (delta history, positions, buffers)")
    reinit.check_read_first(ck, prog_all, "C15-READFIRST", files={"simple_coder.c", "delta_common.c"})
    ck.floor("C15-READFIRST", 10)
    check_bits(ck, prog)
