"""C07 — threaded decompression: lock discipline of stream_decoder_mt.c.

Decided (necessary conditions of "no data race / lost wake-up / use-after-free"):
  C07-PROT   protected-field table vs must-lockset on the product graph
  C07-REQ    outqueue functions that need the mutex are called with it
  C07-ORDER  lock order coder->mutex -> thr->mutex; nothing held at return
  C07-WAIT   waits in re-testing loops; signal after every predicate write
  C07-END    exit request -> join -> free ordering
  C07-CVE    worker frees its input / returns to the free list only after LZMA_STREAM_END
  C07-ERR    SEQ_ERROR returns the pending error only after the queue was drained
  C07-QUIET  the states used as "quiescent" are entered only after the queue was seen empty
"""
from sa import ex, cfg, fd, lock
from sa.compdb import AnalysisBroken
from . import common, mtcommon
from .oblig import MP, evaluate

FILE = "stream_decoder_mt.c"
CODER = "lzma_stream_coder@stream_decoder_mt.c"
THR = "worker_thread@stream_decoder_mt.c"
OUTBUF = "lzma_outbuf_s"

QUIESCENT = {"SEQ_STREAM_HEADER", "SEQ_BLOCK_DIRECT_RUN", "SEQ_INDEX_DECODE", "SEQ_STREAM_FOOTER",
             "SEQ_STREAM_PADDING"}

CFG = dict(
    file=FILE, coder_rec=CODER, thr_rec=THR, main_fn="stream_decode_mt", end_fn="stream_decoder_mt_end",
    quiescent_any="SEQ_INDEX_WAIT_OUTPUT", quiescent=QUIESCENT,
    roles={CODER: "M", THR: "T"},
    prot={
        (CODER, "thread_error"): dict(w="M", r="M"),
        (CODER, "threads_free"): dict(w="M", r="M"),
        (CODER, "mem_in_use"): dict(w="M", r="M"),
        (CODER, "mem_cached"): dict(w="M", r="M"),
        (CODER, "progress_in"): dict(w="M", r="M"),
        (CODER, "progress_out"): dict(w="M", r="M"),
        (OUTBUF, "pos"): dict(w="M", r="M"),
        (OUTBUF, "decoder_in_pos"): dict(w="M", r="M"),
        (OUTBUF, "finished"): dict(w="M", r="M"),
        (OUTBUF, "finish_ret"): dict(w="M", r="M"),
        (THR, "state"): dict(w="T", r="T"),
        (THR, "in_filled"): dict(w="T", r="T"),
        (THR, "partial_update"): dict(w="T", r="T"),
        (THR, "progress_in"): dict(w=("T", "M"), r=("T", "M")),
        (THR, "progress_out"): dict(w=("T", "M"), r=("T", "M")),
        (THR, "next"): dict(w="M", r="M"),
    },
    exceptions=[
        dict(fn="threads_end", fields={"threads_free", "mem_in_use", "mem_cached"}, kind="post-join",
             reason="all workers joined"),
        dict(fn="initialize_new_thread", fields={"state"}, kind="pre-create",
             reason="thread not created yet"),
        dict(fn="get_thread", fields={"in_filled", "progress_in", "progress_out", "partial_update"},
             rec=THR, kind="idle-thread",
             reason="thread taken from the free list / just created: it is idle and reads these only after "
                    "the main thread publishes THR_RUN under thr->mutex"),
        dict(fn="stream_decoder_mt_init", kind="after-threads-end",
             fields={"mem_in_use", "mem_cached", "progress_in", "progress_out", "thread_error", "threads_free"},
             reason="no worker exists: fresh allocation or threads_end() completed"),
        dict(fn="stream_decode_mt", fields={"progress_in", "progress_out"}, rec=CODER, kind="quiescent-state",
             reason="no worker can be inside its critical section in this state"),
        dict(fn="stream_decode_mt", fields={"in_filled"}, mode="R", kind="owner-read",
             reason="the main thread is the only writer of in_filled"),
        dict(fn="stream_decode_mt", fields={"next"}, mode="R", kind="idle-thread",
             reason="walk over the snapshot of the free list: those threads are idle"),
        dict(fn="read_output_and_wait", fields={"partial_update", "in_filled"}, mode="R", kind="owner-read",
             reason="only the main thread changes DISABLED->START / writes in_filled (comment at the site)"),
        dict(fn="worker_decoder", fields={"partial_update"}, mode="W", kind="documented",
             reason="START->ENABLED by the worker itself; the main thread no longer cares (comment at the site)"),
    ],
    requires={"lzma_outq_read": "M", "lzma_outq_is_readable": "M",
              "lzma_outq_enable_partial_output": "M"},
    # the decoder never waits for a worker to become idle (re-initialisation joins the threads), so only the
    # "exit request is never overwritten" half of the rule applies
    stop_ack=dict(worker_fn="worker_decoder", idle="THR_IDLE", exit="THR_EXIT", handshake=False,
                  worker_fns=("worker_decoder",)),
    init_quiesce=dict(init_fn="stream_decoder_mt_init", worker_fns=("worker_decoder", "worker_enable_partial_update"),
                      calls=("threads_end",),
                      **{"except": {"mutex": "the mutex itself (initialised once, when the coder is allocated)",
                                    "cond": "the condition variable itself (initialised once)"}}),
    order_ok={("M", "T")},
    waited={
        (THR, "state"): "T", (THR, "in_filled"): "T", (THR, "partial_update"): "T",
        (OUTBUF, "pos"): "M", (OUTBUF, "finished"): "M", (CODER, "thread_error"): "M",
        (CODER, "threads_free"): "M",
    },
    signal_except=[
        dict(fn="threads_stop", fields={"state"},
             reason="THR_IDLE needs no wake-up: a running worker re-reads state, an idle one stays idle"),
        dict(fn="worker_decoder", fields={"state"},
             reason="worker sets its own state to IDLE; nobody waits for that on thr->cond"),
        dict(fn="get_thread", fields={"threads_free"},
             reason="popping from the free list cannot make a waiter's predicate true"),
        dict(fn="worker_decoder", fields={"partial_update"},
             reason="unlocked START->ENABLED transition, not a wait predicate change"),
    ],
)


def check_acct(ck, prog):
    """Memory accounting of the threaded decoder: what is added to coder->mem_in_use when a worker gets a Block is
    exactly what the worker subtracts when it finishes, and the per-thread amounts it subtracts are not touched by
    the worker in between."""
    ck.rule("C07-ACCT", "mem_in_use: amounts added for a Block equal the amounts the worker subtracts; the per-thread "
                        "amounts are written by the main thread only")
    workers = ("worker_decoder", "worker_enable_partial_update")
    main = prog.fn("stream_decode_mt", FILE)
    w = prog.fn("worker_decoder", FILE)
    ck.saw_function(main)
    ck.saw_function(w)
    added = set()
    for b, i, e in main.iter_elems():
        for (l, r, op, node) in ex.writes(e):
            if ex.field_key(l) == (CODER, "mem_in_use") and op == "+=":
                added |= {x["f"] for x in ex.walk(r) if x.get("k") == "mem" and x.get("rec") == CODER}
    subtracted = set()
    for b, i, e in w.iter_elems():
        for (l, r, op, node) in ex.writes(e):
            if ex.field_key(l) == (CODER, "mem_in_use") and op == "-=":
                subtracted |= {x["f"] for x in ex.walk(r) if x.get("k") == "mem" and x.get("rec") == THR}
    # provenance of the per-thread amounts
    prov = {}
    for b, i, e in main.iter_elems():
        for (l, r, op, node) in ex.writes(e):
            fk = ex.field_key(l)
            if fk and fk[0] == THR and fk[1] in subtracted and op == "=" and r is not None:
                src = {x["f"] for x in ex.walk(r) if x.get("k") == "mem" and x.get("rec") == CODER}
                if src:
                    prov[fk[1]] = src
    ok = bool(added) and bool(subtracted) and set().union(*prov.values()) == added if prov else False
    ck.ob("C07-ACCT", "symmetric", ok and set(prov) == subtracted, common.where(main),
          "stream_decode_mt adds %s to mem_in_use; worker_decoder subtracts %s, which were set from %s" % (
              sorted(added), sorted(subtracted), {k: sorted(v) for k, v in sorted(prov.items())}),
          key="ACCT:symmetric")
    for fld in sorted(subtracted):
        writers = []
        for wn in workers:
            g = prog.fn(wn, FILE)
            for b, i, e in g.iter_elems():
                for (l, r, op, node) in ex.writes(e):
                    if ex.field_key(l) == (THR, fld):
                        writers.append((wn, ex.line(node)))
        ck.ob("C07-ACCT", "main-only:" + fld, not writers, common.where(w),
              "thr->%s (subtracted from mem_in_use when the Block is done) is never written by a worker function" % fld
              if not writers else
              "%s() stores to thr->%s at line %s; the worker later subtracts that member from coder->mem_in_use, so the "
              "amount added when the Block started is never given back and the decoder eventually refuses to start new "
              "Blocks" % (writers[0][0], fld, writers[0][1]), key="ACCT:main-only:" + fld)
    ck.floor("C07-ACCT", 3)


def _controlling(f, bid, ref_bid):
    """Conditions (node, taken edge 'T'/'F') of the branch blocks that lie after block ref_bid and decide whether block
    bid is reached."""
    doms = cfg.dominators(f)
    out = []
    for d in doms.get(bid, ()):
        if d == bid:
            continue
        blk = f.blocks[d]
        if not (blk.term and "cond" in blk.term and len(blk.succs) == 2):
            continue
        if ref_bid is not None and ref_bid not in doms.get(d, ()) and d != ref_bid:
            continue
        for lab, s_ in (("T", blk.succs[0]), ("F", blk.succs[1])):
            other = blk.succs[1] if lab == "T" else blk.succs[0]
            if s_ is not None and (s_ == bid or s_ in doms.get(bid, ())) and other != s_:
                out.append((blk.term["cond"], lab))
    return out


# (id, function, what: ("call", name) | ("store", field), reference call after which conditions are collected,
#  the exact set of controlling conditions as (pattern, edge), why)
PROGRESS = [
    ("enable-partial", "read_output_and_wait", ("call", "lzma_outq_enable_partial_output"), "lzma_outq_read",
     [("var:ret&enum:LZMA_STREAM_END", "T")],
     "whenever a Block was finished the worker of the next Block is told to publish partial output -- also when the "
     "caller's output buffer is full: otherwise a stalled worker is never noticed and lzma_code() waits forever"),
    ("worker-wait", "worker_decoder", ("call2", "mythread_cond_wait"), "store:partial_update",
     [("var:in_filled&field:in_pos", "T"), ("var:partial_update&enum:PARTIAL_START", "T")],
     "a worker without new input waits -- except once, right after partial output was enabled (PARTIAL_START): that run "
     "publishes in_pos/out_pos, which the main thread needs to notice that the last worker has consumed all its input"),
    ("publish-progress", "worker_decoder", ("store", "decoder_in_pos"), "slot:code",
     [("var:ret&enum:LZMA_OK", "T"), ("var:partial_update&enum:PARTIAL_DISABLED", "T")],
     "with partial updates enabled the worker publishes in_pos/out_pos after every chunk, also when the chunk produced "
     "no output: the main thread detects 'all input consumed, no progress' from decoder_in_pos"),
]


def check_progress(ck, prog):
    from sa import guard
    ck.rule("C07-PROGRESS", "the publication steps that the stall detection of the main thread relies on are controlled "
                            "by exactly the documented conditions")
    for (oid, fn, what, ref, want, why) in PROGRESS:
        f = prog.fn(fn, FILE)
        ck.saw_function(f)
        refb = None
        for b, i, e in f.iter_elems():
            if ref.startswith("store:"):
                e_ = ex.deref(e)
                if e_.get("k") == "asg" and any(
                        ex.strip(l) is not None and ex.strip(l).get("k") == "var" and ex.strip(l)["n"] == ref[6:]
                        for (l, r, op, node) in ex.writes(e)):
                    refb = b.id
                continue
            for c in ex.calls(e, into_refs=False):
                if c.get("fn") == ref or (ref.startswith("slot:") and guard._is_slot_call(c, ref[5:])):
                    refb = b.id
        sites = []
        doms_ = cfg.dominators(f)
        for b, i, e in f.iter_elems():
            if what[0] in ("call", "call2"):
                if any(c.get("fn") == what[1] for c in ex.calls(e, into_refs=False)):
                    # call2: only the call sites that come after the reference point
                    if what[0] == "call2" and not (refb is not None and (refb in doms_.get(b.id, ()) or refb == b.id)):
                        continue
                    sites.append((b.id, e))
            else:
                for (l, r, op, node) in ex.writes(e):
                    fk = ex.field_key(l)
                    if fk and fk[1] == what[1]:
                        sites.append((b.id, node))
        if refb is None or not sites:
            raise AnalysisBroken("%s: %s / %s not found" % (fn, ref, what))
        sites.sort(key=lambda t: ex.line(t[1]) or 0)
        bid, node = sites[0]
        conds = _controlling(f, bid, refb)
        extra = []
        matched = set()
        conds = [(c, lab) for (c, lab) in conds
                 if not any(x.get("k") == "var" and x["n"].startswith("mythread_") for x in ex.walk(c))]
        for (c, lab) in conds:
            neg = ex.show(c).replace("(", "").startswith("!")
            hit = None
            for k, (pat, wl) in enumerate(want):
                if guard.pat_match(f, c, "&".join("d_" + p_ for p_ in pat.split("&"))):
                    hit = k
            if hit is None:
                extra.append("%s [%s]" % (ex.show(c), lab))
            else:
                matched.add(hit)
        ok = not extra and len(matched) == len(want)
        ck.ob("C07-PROGRESS", oid, ok, common.where(f, node),
              "%s: %s at line %s is controlled by exactly %s" % (fn, what[1], ex.line(node), [ex.show(c) for c, _ in conds])
              if ok else
              "%s(): %s (line %s) additionally depends on %s: %s" % (fn, what[1], ex.line(node), extra or "(a documented "
              "condition is missing)", why), key="PROGRESS:" + oid)
    ck.floor("C07-PROGRESS", 2)


def check_cve(ck, prog):
    ck.rule("C07-CVE", "worker_decoder frees thr->in, moves memory counters and returns the thread to the "
            "free list only when ret == LZMA_STREAM_END (or on the terminating THR_EXIT path)")
    cg = common.callgraph(prog)
    rs = common.retsets(prog)
    f = prog.fn("worker_decoder", FILE)
    ck.saw_function(f)
    rets = prog.enum("lzma_ret")
    END = rets["LZMA_STREAM_END"]
    g = fd.FD(prog, f, [fd.Key("var", "ret", domain=rets.values(), label="ret")], cg=cg,
              call_values=lambda c, s: rs.call_set(c, f))
    g.run([g.top_state()])
    oncycle = {b for b in f.blocks if lock.in_loop(f, b)}

    def terminal(bid):
        return not (cfg.reachable(f, [bid]) & oncycle)

    sens = []
    for b, i, e in f.iter_elems():
        for c in ex.calls(e, into_refs=False):
            if c.get("fn") == "lzma_free" and any(x.get("k") == "mem" and x["f"] == "in"
                                                  for x in ex.walk(c["args"][0])):
                sens.append((b, i, "free(thr->in)", ex.line(c)))
        for (l, r, op, node) in ex.writes(e):
            fk = ex.field_key(l)
            if fk and fk[1] in ("threads_free", "mem_cached") and fk[0] == CODER:
                sens.append((b, i, "write %s" % fk[1], ex.line(node)))
            if fk and fk[1] == "mem_in_use" and fk[0] == CODER:
                sens.append((b, i, "write mem_in_use", ex.line(node)))
    for (b, i, what, ln) in sens:
        sts = g.states_before_elem(b.id, i)
        vals = set()
        for s in sts:
            v = g.get(s, "ret")
            vals |= set(v) if v is not None else set(rets.values())
        ok = (vals == {END}) or terminal(b.id)
        ck.ob("C07-CVE", "worker_decoder:%s" % what, ok, common.where(f, ln),
              "%s at line %d happens only with ret == LZMA_STREAM_END%s" % (
                  what, ln, " (or on the thread-exit path)" if terminal(b.id) else "") if ok else
              "%s at line %d can happen with ret in {%s}: a failed worker must keep its input buffer and stay "
              "off the free list because the main thread may still be writing to thr->in (CVE-2025-31115)" % (
                  what, ln, ",".join(rs.names(vals))),
              key="CVE:%s" % what)
    # outbuf finished + thr->outbuf = NULL under M on every finishing path: covered by PROT + signal
    ck.floor("C07-CVE", 4)


TABLE = [
    MP("error-after-drain", "stream_decode_mt", FILE,
       [("test", "call:lzma_outq_is_empty", "T")], ("retexpr", "field:pending_error"),
       src=("SEQ_ERROR",), init_seq=("SEQ_STREAM_HEADER",), states=("SEQ_ERROR",),
       bypass=[("test", "field:fail_fast", "T")],
       why="the pending error is returned only after all earlier output was delivered (unless fail-fast)"),
    MP("quiet:index-decode", "stream_decode_mt", FILE,
       [("test", "call:lzma_outq_is_empty", "T")], ("seq", "SEQ_INDEX_DECODE"),
       src=("SEQ_INDEX_WAIT_OUTPUT", "SEQ_BLOCK_HEADER", "SEQ_BLOCK_INIT", "SEQ_BLOCK_THR_INIT",
            "SEQ_BLOCK_THR_RUN"), init_seq=("SEQ_STREAM_HEADER",),
       why="Index decoding (unlocked progress updates) starts only after the output queue was seen empty"),
    MP("quiet:direct-run", "stream_decode_mt", FILE,
       [("test", "call:lzma_outq_is_empty", "T")], ("seq", "SEQ_BLOCK_DIRECT_RUN"),
       src=("SEQ_BLOCK_DIRECT_INIT", "SEQ_BLOCK_INIT", "SEQ_BLOCK_HEADER"), init_seq=("SEQ_STREAM_HEADER",),
       why="direct mode runs only after the queue is empty (and threads_end)"),
]


def check_waitarg(ck, prog):
    """read_output_and_wait(..., waiting_allowed, ...) blocks only if its caller allows it.  stream_decode_mt() may pass
    its per-call flag `waiting_allowed` (wait only when the application gave no more input) in the states that can make
    progress by consuming input in the same call.  In a state that cannot consume input before that call (it only waits
    for the workers: SEQ_INDEX_WAIT_OUTPUT, SEQ_BLOCK_THR_INIT, SEQ_BLOCK_INIT, SEQ_BLOCK_DIRECT_INIT, SEQ_ERROR) the
    argument must be the constant true: otherwise a call made with unread input returns LZMA_OK without progress and
    lzma_code() turns the second such call into LZMA_BUF_ERROR on a valid file."""
    from sa import resume
    ck.rule("C07-WAITARG", "states that cannot consume input before read_output_and_wait() pass waiting_allowed = true")
    f = prog.fn("stream_decode_mt", FILE)
    ck.saw_function(f)
    sw = resume.Resume(prog, f).find_switch()
    if not sw:
        raise AnalysisBroken("stream_decode_mt: state switch not found")
    swb = sw[0]
    labels = {}
    for s_ in swb.succs:
        if s_ is not None and f.blocks[s_].label and f.blocks[s_].label.get("n"):
            labels[s_] = f.blocks[s_].label["n"]
    lab = set(labels)

    def region(start):
        seen, st = set(), [start]
        while st:
            x = st.pop()
            if x in seen:
                continue
            seen.add(x)
            st.extend(y for y in f.blocks[x].succs if y is not None and y != swb.id and y not in lab)
        return seen
    reg = {l: region(l) for l in lab}
    n = 0
    for b, i, e in f.iter_elems():
        for c in ex.calls(e, into_refs=False):
            if c.get("fn") != "read_output_and_wait" or len(c["args"]) < 7:
                continue
            L = sorted(labels[l] for l in lab if b.id in reg[l])
            consumed = False
            for l in lab:
                if b.id not in reg[l]:
                    continue
                preds = {}
                for x in reg[l]:
                    for y in f.blocks[x].succs:
                        if y in reg[l]:
                            preds.setdefault(y, set()).add(x)
                back, st = set(), [b.id]
                while st:
                    x = st.pop()
                    if x in back:
                        continue
                    back.add(x)
                    st.extend(preds.get(x, ()))
                for x in back:
                    for j, ee in enumerate(f.blocks[x].elems):
                        if ee is None or (x == b.id and j >= i):
                            continue
                        if any(any("in_pos" in ex.show(a) for a in cc["args"]) for cc in ex.calls(ee, into_refs=False)):
                            consumed = True
            arg = c["args"][6]
            n += 1
            ok = consumed or (ex.const_val(arg) not in (None, 0))
            ck.ob("C07-WAITARG", "/".join(L) or "?", ok, common.where(f, c),
                  "%s: %s" % ("/".join(L), "input can be consumed before the call, waiting_allowed = `%s`" % ex.show(arg)
                              if consumed else "no input can be consumed in this state, waits unconditionally") if ok else
                  "stream_decode_mt(): in state %s nothing consumes input before read_output_and_wait(), but the call passes "
                  "waiting_allowed = `%s` instead of true: with unread input and busy workers the call returns LZMA_OK "
                  "without progress, and the next one becomes LZMA_BUF_ERROR on a valid file" % ("/".join(L), ex.show(arg)),
                  key="WAITARG:" + "/".join(L))
    ck.floor("C07-WAITARG", 6)


def run(ck):
    ck.explanation = (
        "Lock discipline of the threaded decoder decided by a must-lockset dataflow on the path-sensitive "
        "product graph (mythread_sync's loop variables are tracked, so lock regions are exact): protected-field "
        "table with re-verified structural exceptions, documented-mutex call sites, lock order, wait loops and "
        "signal-after-write, join-before-free, the CVE-2025-31115 worker rules, pending-error-after-drain.")
    ck.not_decided = ("output equality with the single-threaded decoder, absence of deadlock or data races in "
                      "general (the table is a necessary condition), memory accounting values, liveness.")
    prog = common.program(ck, ("liblzma",))
    n = mtcommon.check_prot(ck, prog, CFG, "C07-PROT")
    ck.floor("C07-PROT", 60, "obligations")
    mtcommon.check_requires(ck, prog, CFG, "C07-REQ")
    ck.floor("C07-REQ", 3)
    mtcommon.check_order(ck, prog, CFG, "C07-ORDER")
    mtcommon.check_wait(ck, prog, CFG, "C07-WAIT")
    mtcommon.check_waitpred(ck, prog, CFG, "C07-WAIT")
    ck.floor("C07-WAIT", 8)
    mtcommon.check_end(ck, prog, CFG, "C07-END")
    mtcommon.check_stop_ack(ck, prog, CFG, "C07-STOPACK")
    mtcommon.check_init_quiesce(ck, prog, CFG, "C07-QUIESCE")
    check_waitarg(ck, prog)
    # the output queue shared with the other threaded coder is reset by lzma_outq_init() on every (re)initialisation
    from . import reinit as _re
    ck.rule("C07-OUTQRESET", "lzma_outq_init() resets every lzma_outq member that the queue operations modify")
    _re.check_reset_cover(ck, prog, "C07-OUTQRESET", [
        ("lzma_outq_init", "outqueue.c", "lzma_outq", ("lzma_outq_end",),
         {"head": "emptied by `while (outq->head != NULL) move_head_to_cache()`: the loop exit condition is the reset state",
          "tail": "set to NULL by move_head_to_cache() when the last buffer leaves the queue",
          "bufs_in_use": "decremented per buffer by move_head_to_cache() until the queue is empty",
          "mem_in_use": "decremented per buffer by move_head_to_cache() until the queue is empty",
          "cache": "cached buffers are kept across sessions on purpose (trimmed to the new limit)",
          "bufs_allocated": "counts the cached buffers that are kept",
          "mem_allocated": "counts the cached buffers that are kept"}),
    ])
    ck.floor("C07-OUTQRESET", 2)
    ck.rule("C07-INITCONS", "members that stream_decoder_mt_init (re)initialises on some paths are initialised on "
                            "every path that returns LZMA_OK")
    from . import reinit
    reinit.INIT_EXCEPT[("stream_decoder_mt_init", "mem_direct_mode")] = \
        "memory of the direct-mode Block decoder, which is deliberately kept across re-initialisation"
    reinit.check_init_consistency(ck, prog, "C07-INITCONS", files={FILE})
    # LZMA_IGNORE_CHECK means the same in both decoders: the flag reaches the Block options after the header decoder reset it
    from . import C05 as _C05
    ck.rule("C07-IGNCHK", "block_options.ignore_check is stored after lzma_block_header_decode() in both stream decoders")
    _C05.check_ignore_check_flow(ck, prog, rule="C07-IGNCHK", parts=("after-header",))
    ck.floor("C07-IGNCHK", 2)
    check_cve(ck, prog)
    check_acct(ck, prog)
    check_progress(ck, prog)
    ck.rule("C07-ERR", "pending error after drain; quiescent states entered only after the queue was empty")
    evaluate(ck, prog, "C07-ERR", TABLE, floor=3)
