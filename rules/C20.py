"""C20 — xzgrep/xzdiff/xzless/xzmore treat file names and patterns as data (quoting / eval / sed discipline).

E-SH: the four scripts are parsed into a shell AST (sa/sh.py); the rules below are decided on that AST.

C20-QUOTE   every expansion of a tainted variable (positional parameters and whatever is assigned from them) is
            inside double quotes or in a no-split position (assignment, case word); `echo` never receives tainted
            data; printf formats are constants; tainted `test` operands only in 2/3-argument forms or prefixed.
C20-EVAL    every eval argument is a constant, a single-quoted deferred expansion, or a double-quoted string that
            expands only escaped accumulator variables; every store to an accumulator uses one of two escaping
            idioms: 'literal quotes' in a case arm that is preceded by an arm catching every string with a quote, or the
            printf/expr ...X | sed "$escape" pipeline after an opening quote; $escape is the constant program that
            rewrites ' to '\\'' and the trailing X to '.
C20-SED     the sed-label fallback escapes the s-command delimiter, & and \\ and continues lines, under a case that
            tests for exactly those characters; a failing sed yields a constant.
C20-OPT     `--` precedes every file operand of a decompressor / mkdir / LESSOPEN; the diff/cmp accumulator ends in `--`.
C20-STATUS  status captures `$(exec N>&1 ...)` receive only `echo $? >&N`; xzdiff checks readability of operands first
            and maps decompressor failures to exit 2.
"""
import os

from sa import sh
from sa.compdb import AnalysisBroken, REPO

SCRIPTS = ("xzgrep", "xzdiff", "xzless", "xzmore")

# variables that hold shell code on purpose (built only from constants, environment defaults and escaped words)
ACCUMULATORS = {"xzgrep": {"grep", "operands", "arg2", "optarg"},
                "xzdiff": {"cmp"}, "xzless": set(), "xzmore": set()}
# variables expanded unquoted on purpose: (script, var) -> reason; their assignments are checked to be untainted
SPLIT_OK = {
    ("xzgrep", "uncompress"): "decompressor command line chosen from constants and $xz",
    ("xzgrep", "xz"): "constant set at the top of the script",
    ("xzdiff", "xz1"): "decompressor command line chosen from constants and $xz",
    ("xzdiff", "xz2"): "decompressor command line chosen from constants and $xz",
    ("xzdiff", "xz"): "constant",
    ("xzdiff", "xz_status"): "one or two exit statuses captured through a dedicated descriptor",
    ("xzdiff", "cmp_status"): "exit status",
    ("xzmore", "xz"): "constant",
    ("xzmore", "cb"): "constant stty arguments", ("xzmore", "ncb"): "constant stty arguments",
    ("xzmore", "oldtty"): "output of stty -g",
    ("xzmore", "FIRST"): "constant 0/1",
    ("xzless", "SHOW_PREPROC_ERRORS"): "constant option or empty",
    ("xzless", "ver"): "version number read from `less -V`",
}
ENV_VARS = {"GREP", "CMP", "DIFF", "PAGER", "TMPDIR", "LESSMETACHARS", "POSIXLY_CORRECT", "LESSOPEN", "VER"}
TAINT_SOURCES = set("123456789@*") | {"0"}


def script_path(name):
    p = os.path.join(REPO, "src", "scripts", name + ".in")
    ov = os.environ.get("XZ_VERIF_FILE_OVERRIDE")
    for pair in (ov or "").split(","):
        if "=" not in pair:
            continue
        orig, repl = pair.split("=", 1)
        if os.path.abspath(orig) == os.path.abspath(p):
            return repl, p
    return p, p


class Script:
    def __init__(self, name):
        self.name = name
        path, self.orig = script_path(name)
        if not os.path.exists(path):
            raise AnalysisBroken("anchor vanished: %s" % self.orig)
        self.text = open(path).read()
        try:
            self.ast = sh.parse(self.text)
        except sh.ShSyntaxError as e:
            raise AnalysisBroken("%s: shell parser: %s" % (name, e))
        self.rel = os.path.relpath(self.orig, REPO)
        self.cmds = list(sh.walk_commands(self.ast))
        self.assigns = []            # (var, Word, cmd, ctx)
        for c, ctx in self.cmds:
            if c["t"] == "simple":
                for (n, v) in c["assigns"]:
                    if not c["words"]:
                        self.assigns.append((n, v, c, ctx))
        self.for_vars = {}
        for c, ctx in self.cmds:
            if c["t"] == "for":
                self.for_vars[c["var"]] = c

    def where(self, line):
        return "%s:%d" % (self.rel, line)


# ---------------------------------------------------------------------------------------------------------------
def capture_clean(part):
    """`$( exec N>&1 ; pipeline )` whose captured stdout can only receive `echo $? >&N`:
    the body is `exec N>&1` followed by one pipeline whose last stage sends its stdout to fd 3 and in which every
    `>&N` redirection belongs to an `echo $?` command.  Returns (ok, why)."""
    body = part[1]
    items = body["items"]
    if len(items) != 2:
        return False, "body is not `exec N>&1` + one pipeline"
    first = items[0]["items"][0][1]["cmds"][0] if len(items[0]["items"]) == 1 else None
    if first is None or first["t"] != "simple" or [w.text() for w in first["words"]] != ["exec"] or \
            not first["redirs"]:
        return False, "first command is not `exec N>&1`"
    # exactly one output duplication N>&1; further redirections of the exec may only duplicate INPUT descriptors
    # (`6<&0`: keep the original standard input), which cannot put anything into the captured stdout
    outs = [(fd_, op_, t_) for (fd_, op_, t_) in first["redirs"] if op_ != "<&"]
    if len(outs) != 1:
        return False, "first command is not `exec N>&1` (plus input duplications)"
    fd, op, tgt = outs[0]
    if op != ">&" or tgt.text() != "1" or fd is None:
        return False, "first command is not `exec N>&1`"
    N = fd
    if len(items[1]["items"]) != 1:
        return False, "second command is not a single pipeline"
    pipe = items[1]["items"][0][1]
    def to_fd3(stage):
        if any(op_ == ">&" and (fd_ in (None, "1")) and t_.text() == "3" for (fd_, op_, t_) in stage.get("redirs", [])):
            return True
        if stage["t"] in ("subshell", "group"):
            its = stage["body"]["items"]
            if len(its) == 1 and len(its[0]["items"]) == 1:
                return to_fd3(its[0]["items"][0][1]["cmds"][-1])
        return False
    last = pipe["cmds"][-1]
    if not to_fd3(last):
        return False, "last pipeline stage does not send stdout to descriptor 3"
    if len(pipe["cmds"]) < 2:
        return False, "no pipeline"
    # every write to fd N is `echo $? >&N`; nobody else may reference N except to close it
    for c, ctx in sh.walk_commands(items[1]):
        for (fd_, op_, t_) in c.get("redirs", []):
            if op_ == ">&" and t_.text() == N:
                if not (c["t"] == "simple" and [w.text() for w in c["words"]] == ["echo", "$?"]):
                    return False, "descriptor %s is written by something other than `echo $?`" % N
    return True, "captures only `echo $? >&%s`" % N


def word_params(word):
    """(name, quoted, part) for every parameter expansion in a word, not descending into command substitutions."""
    for p, q in sh.iter_parts_q(word.parts):
        if p[0] == "param":
            yield p[1], q, p


def word_cmdsubs(word):
    for p, q in sh.iter_parts_q(word.parts):
        if p[0] == "cmdsub":
            yield p, q


def compute_taint(s):
    """Flow-insensitive taint: positional parameters, for-variables over them, and variables assigned from words
    that contain a tainted expansion (also inside command substitutions, unless the substitution is a clean status
    capture)."""
    tainted = set(TAINT_SOURCES)
    for v, node in s.for_vars.items():
        if node["words"] is None:
            tainted.add(v)

    def word_tainted(w):
        for name, q, p in word_params(w):
            if name in tainted:
                return True
        for p, q in word_cmdsubs(w):
            ok, why = capture_clean(p)
            if ok:
                continue
            for c, ctx in sh.walk_commands(p[1]):
                if c["t"] == "simple":
                    for w2 in sh.words_of(c):
                        for name, q2, p2 in word_params(w2):
                            if name in tainted:
                                return True
                elif c["t"] == "case":
                    for name, q2, p2 in word_params(c["word"]):
                        if name in tainted:
                            return True
        return False
    changed = True
    while changed:
        changed = False
        for (n, v, c, ctx) in s.assigns:
            if n not in tainted and word_tainted(v):
                tainted.add(n)
                changed = True
        for v, node in s.for_vars.items():
            if v not in tainted and node["words"] and any(word_tainted(w) for w in node["words"]):
                tainted.add(v)
                changed = True
    return tainted


def check_quote(ck, s, tainted):
    """C20-QUOTE"""
    n_exp = 0
    bad = []
    acc = ACCUMULATORS[s.name]
    for c, ctx in s.cmds:
        sites = []
        if c["t"] == "simple":
            for w in c["words"]:
                sites.append(("argument", w))
            for (fd, op, w) in c["redirs"]:
                sites.append(("redirection", w))
            # assignments before a command word are still no-split
        elif c["t"] == "for":
            for w in c["words"] or []:
                sites.append(("for list", w))
        else:
            for (fd, op, w) in c.get("redirs", []):
                sites.append(("redirection", w))
        for kind, w in sites:
            for name, quoted, p in word_params(w):
                if name not in tainted:
                    if not quoted and (s.name, name) in SPLIT_OK:
                        n_exp += 1
                    continue
                n_exp += 1
                if quoted:
                    continue
                # ${1+"$@"}: the alternative word is itself quoted
                if p[2] in ("+", ":+") and p[3] is not None and all(x[0] == "dq" for x in p[3].parts):
                    continue
                if (s.name, name) in SPLIT_OK:
                    bad.append((p[-1], "`$%s` is expanded unquoted (allowed because: %s) but it can hold data "
                                "derived from the arguments" % (name, SPLIT_OK[(s.name, name)])))
                    continue
                bad.append((p[-1], "`%s` in a command %s is expanded outside double quotes" % (
                    sh.unparse_parts([p]), kind)))
    for ln, msg in bad:
        ck.ob("C20-QUOTE", "%s:unquoted:%d" % (s.name, ln), False, s.where(ln), "%s: %s" % (s.name, msg),
              key="QUOTE:%s:unquoted" % s.name)
    ck.ob("C20-QUOTE", s.name + ":expansions", not bad, s.rel,
          "%s: %d expansions of argument-derived variables in command words, for-lists and redirections are all "
          "double-quoted (tainted: %s)" % (s.name, n_exp, sorted(tainted - TAINT_SOURCES)),
          key="QUOTE:%s:all" % s.name)
    # deliberately split variables must not be tainted
    for (sc, var), why in SPLIT_OK.items():
        if sc != s.name:
            continue
        used = any(name == var and not q for c, ctx in s.cmds if c["t"] in ("simple", "for")
                   for w in (c["words"] if c["t"] == "simple" else (c["words"] or []))
                   for name, q, p in word_params(w))
        if not used:
            continue
        ck.ob("C20-QUOTE", "%s:split:%s" % (s.name, var), var not in tainted, s.rel,
              "%s: $%s is word-split on purpose (%s) and no assignment to it carries argument data" % (s.name, var, why),
              key="QUOTE:%s:split:%s" % (s.name, var))
    # echo / printf / test discipline
    nprintf = 0
    for c, ctx in s.cmds:
        if c["t"] != "simple" or not c["words"]:
            continue
        cmd = c["words"][0].plain()
        args = c["words"][1:]
        if cmd == "echo":
            t = [w for w in args for name, q, p in word_params(w) if name in tainted]
            ck.ob("C20-QUOTE", "%s:echo:%d" % (s.name, c["line"]), not t, s.where(c["line"]),
                  "%s: echo %s prints no argument-derived data" % (s.name, " ".join(w.text() for w in args)),
                  key="QUOTE:%s:echo" % s.name)
        elif cmd == "printf":
            fmt = None
            for w in args:
                if w.text().startswith(">"):
                    continue
                fmt = w
                break
            okf = fmt is not None and sh.static_value(fmt) is not None
            nprintf += 1
            ck.ob("C20-QUOTE", "%s:printf:%d" % (s.name, c["line"]), okf, s.where(c["line"]),
                  "%s: printf format %s is a constant" % (s.name, fmt.text() if fmt else None),
                  key="QUOTE:%s:printf" % s.name)
        elif cmd == "test":
            t = [w for w in args for name, q, p in word_params(w) if name in tainted]
            if not t:
                continue
            ops = [w.plain() for w in args]
            ok = len(args) <= 3 and "-a" not in ops and "-o" not in ops
            ck.ob("C20-QUOTE", "%s:test:%d" % (s.name, c["line"]), ok, s.where(c["line"]),
                  "%s: `test %s` has argument data only in a %d-argument form (unambiguous in POSIX)" % (
                      s.name, " ".join(w.text() for w in args), len(args)), key="QUOTE:%s:test" % s.name)
    return n_exp


# ---------------------------------------------------------------------------------------------------------------
ESCAPE_PROGRAM_LINES = ["s/'/'\\\\''/g", "$s/X$/'/"]


def is_escape_pipeline(part, var_names, s):
    """`printf '%sX\\n' "$v" | [LC_ALL=C] sed "$escape"`  or  `[LC_ALL=C] expr "X${v}X" : 'RE\\(.*\\)' | sed "$escape"`.
    Returns (ok, var) ."""
    body = part[1]
    if len(body["items"]) != 1 or len(body["items"][0]["items"]) != 1:
        return False, None
    pipe = body["items"][0]["items"][0][1]
    if len(pipe["cmds"]) != 2 or any(c["t"] != "simple" for c in pipe["cmds"]):
        return False, None
    prod, cons = pipe["cmds"]
    cw = [w.text() for w in cons["words"]]
    if cw != ["sed", '"$escape"']:
        return False, None
    pw = prod["words"]
    if not pw:
        return False, None
    name = pw[0].plain()
    var = None
    if name == "printf" and len(pw) == 3 and sh.static_value(pw[1]) == "%sX\\n":
        ps = list(word_params(pw[2]))
        if len(ps) == 1 and ps[0][1] and pw[2].parts[0][0] == "dq" and len(pw[2].parts) == 1 and \
                len(pw[2].parts[0][1]) == 1:
            var = ps[0][0]
    elif name == "expr" and len(pw) == 4 and pw[2].plain() == ":":
        # "X${v}X" : '...\(.*\)'
        a = pw[1]
        if len(a.parts) == 1 and a.parts[0][0] == "dq":
            inner = a.parts[0][1]
            if len(inner) == 3 and inner[0][0] == "lit" and inner[0][1] == "X" and inner[1][0] == "param" and \
                    inner[2][0] == "lit" and inner[2][1] == "X":
                re_ = sh.static_value(pw[3])
                if re_ is not None and re_.endswith("\\(.*\\)"):
                    var = inner[1][1]
    if var is None:
        return False, None
    return True, var


def quote_guard_ok(guard_pat, safe_pat):
    """An earlier arm `guard_pat` catches every string that matches `safe_pat` and contains a single quote.
    Decided for guards of the form  PREFIX*\\'*  where PREFIX is a literal without wildcards and safe_pat starts with
    the same literal prefix (or the guard prefix is empty)."""
    g = guard_pat.parts
    # strip trailing  * \' *
    if len(g) < 2:
        return False
    tail = g[-3:] if len(g) >= 3 else g
    # normalise: lit("...*") esc(') lit("*")
    if not (g[-1][0] == "lit" and g[-1][1] == "*" and g[-2][0] == "esc" and g[-2][1] == "'"):
        return False
    head = g[:-2]
    if not head or head[-1][0] != "lit" or not head[-1][1].endswith("*"):
        return False
    prefix = "".join(p[1] for p in head if p[0] == "lit")[:-1]
    if any(p[0] != "lit" for p in head) or any(ch in prefix for ch in "*?["):
        return False
    st = sh.static_value(safe_pat)
    if st is None:
        st = safe_pat.text()
    return st.startswith(prefix) if prefix else True


def find_case_arm(ctx, cmd):
    """Innermost enclosing case node and the index of the arm that contains cmd."""
    for anc in reversed(ctx):
        if anc["t"] == "case":
            for idx, (pats, body, ln) in enumerate(anc["arms"]):
                for c2, _ in sh.walk_commands(body):
                    if c2 is cmd:
                        return anc, idx
    return None, None


def case_subject_var(case):
    ps = list(word_params(case["word"]))
    return ps[0][0] if len(ps) >= 1 else None


def check_accumulator_store(s, var, word, cmd, ctx, tainted, requoted):
    """Every piece of an accumulator assignment is safe shell text.  Returns list of problems."""
    probs = []
    acc = ACCUMULATORS[s.name]
    parts = word.parts
    flat = []          # (part, quoted, prev_literal_text)
    for idx, p in enumerate(parts):
        if p[0] == "dq":
            for j, q in enumerate(p[1]):
                prev = p[1][j - 1] if j > 0 else (parts[idx - 1] if idx > 0 else None)
                nxt = p[1][j + 1] if j + 1 < len(p[1]) else None
                flat.append((q, True, prev, nxt))
        else:
            prev = parts[idx - 1] if idx > 0 else None
            if prev is not None and prev[0] == "dq" and prev[1]:
                prev = prev[1][-1]
            flat.append((p, False, prev, parts[idx + 1] if idx + 1 < len(parts) else None))
    for p, quoted, prev, nxt in flat:
        k = p[0]
        if k in ("lit", "sq", "esc"):
            continue
        if k == "param":
            name = p[1]
            if name in acc:
                continue
            if name in ENV_VARS or (name not in tainted):
                continue
            if name in requoted.get(id(cmd), ()):
                continue
            # idiom (a): '$x' between literal quotes, inside a case on $x whose earlier arm catches all quotes
            prev_q = prev is not None and prev[0] == "lit" and prev[1].endswith("'")
            next_q = nxt is not None and nxt[0] == "lit" and nxt[1].startswith("'")
            case, arm = find_case_arm(ctx, cmd)
            if not (quoted and prev_q and next_q):
                probs.append((p[-1], "`$%s` is stored into shell-code variable `%s` without quoting" % (name, var)))
                continue
            if case is None or case_subject_var(case) != name:
                probs.append((p[-1], "`'$%s'` is stored into `%s` but not under a `case $%s` that excludes quotes" % (
                    name, var, name)))
                continue
            safe_pats = case["arms"][arm][0]
            guards = [pt for (pats, body, ln) in case["arms"][:arm] for pt in pats]
            for sp in safe_pats:
                if not any(quote_guard_ok(g, sp) for g in guards):
                    probs.append((p[-1], "`'$%s'` is stored into `%s` in the arm `%s)` of the case at line %d, but no "
                                  "earlier arm catches every value containing a single quote (earlier patterns: %s)" % (
                                      name, var, sp.text(), case["line"], [g.text() for g in guards])))
            continue
        if k == "cmdsub":
            ok, v = is_escape_pipeline(p, None, s)
            opening = prev is not None and ((prev[0] == "lit" and prev[1].endswith("'")) or
                                            (prev[0] == "esc" and prev[1] == "'"))
            if not ok:
                probs.append((p[-1], "command substitution stored into `%s` is not the printf/expr ...X | sed \"$escape\" "
                              "idiom" % var))
            elif not opening:
                probs.append((p[-1], "escaped text stored into `%s` is not preceded by an opening quote" % var))
            continue
        probs.append((p[-1], "unexpected %s in a store to `%s`" % (k, var)))
    return probs


def requote_cases(s, tainted):
    """`case $v in (guard) v=<escaped>;; (*) v="'$v'";; esac` : after it $v is safe shell text.
    Returns {id(following assignment cmd): {v}} for assignment commands that directly follow such a case in the same
    list."""
    out = {}
    checked = []

    def visit_list(lst):
        items = lst["items"]
        for idx, it in enumerate(items):
            first = it["items"][0][1]["cmds"][0] if len(it["items"]) == 1 and len(it["items"][0][1]["cmds"]) == 1 else None
            if first is not None and first["t"] == "case":
                v = case_subject_var(first)
                arms_ok = v is not None and bool(first["arms"])
                for (pats, body, ln) in first["arms"]:
                    cmds = [a_["items"][0][1]["cmds"][0] for a_ in body["items"]
                            if len(a_["items"]) == 1 and len(a_["items"][0][1]["cmds"]) == 1]
                    if len(cmds) != len(body["items"]) or len(cmds) != 1 or cmds[0]["t"] != "simple" or [n for n, _ in cmds[0]["assigns"]] != [v]:
                        arms_ok = False
                if arms_ok and idx + 1 < len(items):
                    nxt = items[idx + 1]
                    for c, _ in sh.walk_commands(nxt):
                        if c["t"] == "simple" and c["assigns"]:
                            out.setdefault(id(c), set()).add(v)
                            checked.append((first, v))
                        break
    for c, ctx in s.cmds:
        for key in ("body", "cond", "else"):
            if isinstance(c.get(key), dict) and c[key].get("t") == "list":
                visit_list(c[key])
        if c["t"] == "if":
            for cond, body in c["clauses"]:
                visit_list(cond)
                visit_list(body)
        if c["t"] == "case":
            for pats, body, ln in c["arms"]:
                visit_list(body)
    visit_list(s.ast)
    return out, checked


def check_eval(ck, s, tainted):
    acc = set(ACCUMULATORS[s.name])
    requoted, req_cases = requote_cases(s, tainted)
    # variables re-quoted in place count as accumulators for their own stores
    req_vars = {v for (_, v) in req_cases}
    n_eval = 0
    for c, ctx in s.cmds:
        if c["t"] != "simple" or not c["words"] or c["words"][0].plain() != "eval":
            continue
        n_eval += 1
        probs = []
        for w in c["words"][1:]:
            for p in w.parts:
                if p[0] in ("lit", "esc"):
                    continue
                if p[0] == "sq":
                    continue          # evaluated later, in quotes of its own: '"$FILE"', '${1+"$@"}'
                if p[0] == "dq":
                    for q in p[1]:
                        if q[0] in ("lit", "esc"):
                            continue
                        if q[0] == "param" and (q[1] in acc or q[1] in ENV_VARS):
                            if q[1] in ENV_VARS and q[1] in tainted:
                                probs.append("`$%s` carries argument data" % q[1])
                            continue
                        if q[0] == "param" and q[1] not in tainted:
                            continue
                        probs.append("`%s` is expanded inside the eval string" % sh.unparse_parts([q]))
                    continue
                if p[0] == "param" and p[1] not in tainted and p[1] not in acc:
                    continue
                probs.append("unquoted `%s` as eval argument" % sh.unparse_parts([p]))
        # single-quoted deferred expansions must themselves be quoted expansions
        for w in c["words"][1:]:
            for p in w.parts:
                if p[0] == "sq" and "$" in p[1]:
                    try:
                        inner = sh.Parser(p[1]).read_word()
                    except sh.ShSyntaxError:
                        probs.append("cannot parse deferred text %r" % p[1])
                        continue
                    for name, quoted, pp in word_params(inner):
                        if not quoted and not (pp[2] in ("+", ":+") and pp[3] is not None and
                                               all(x[0] == "dq" for x in pp[3].parts)):
                            probs.append("deferred expansion `$%s` in '%s' is not double-quoted" % (name, p[1]))
        ck.ob("C20-EVAL", "%s:eval:%d" % (s.name, c["line"]), not probs, s.where(c["line"]),
              "%s: eval %s -- only constants, escaped accumulators %s and quoted deferred expansions" % (
                  s.name, " ".join(w.text() for w in c["words"][1:]), sorted(acc)) if not probs else
              "%s: eval at line %d: %s" % (s.name, c["line"], "; ".join(probs)), key="EVAL:%s:eval" % s.name)
    n_store = 0
    for (n, v, c, ctx) in s.assigns:
        if n not in acc and n not in req_vars:
            continue
        if n in req_vars and n not in acc:
            # only the stores inside the re-quoting case are checked as accumulator stores
            case, arm = find_case_arm(ctx, c)
            if case is None or not any(case is rc for rc, _ in req_cases):
                continue
        n_store += 1
        probs = check_accumulator_store(s, n, v, c, ctx, tainted, requoted)
        ck.ob("C20-EVAL", "%s:store:%s:%d" % (s.name, n, c["line"]), not probs, s.where(c["line"]),
              "%s: %s=%s adds only constants, environment defaults and escaped words" % (s.name, n, v.text())
              if not probs else "%s: %s" % (s.name, "; ".join(m for _, m in probs)),
              key="EVAL:%s:store:%s" % (s.name, n))
    # the escape program
    esc = [(n, v, c) for (n, v, c, ctx) in s.assigns if n == "escape"]
    if ACCUMULATORS[s.name]:
        val = sh.static_value(esc[0][1]) if len(esc) == 1 else None
        lines = [l.strip() for l in (val or "").split("\n") if l.strip()]
        ck.ob("C20-EVAL", s.name + ":escape-program", lines == ESCAPE_PROGRAM_LINES, s.where(esc[0][2]["line"]) if esc else s.rel,
              "%s: $escape is the constant sed program %s (every ' -> '\\'' ; trailing X -> ')" % (s.name, lines),
              key="EVAL:%s:escape" % s.name)
    return n_eval, n_store


# ---------------------------------------------------------------------------------------------------------------
def check_sed(ck, s, tainted):
    """xzgrep label fallback."""
    scr = [(n, v, c, ctx) for (n, v, c, ctx) in s.assigns if n == "sed_script"]
    if len(scr) != 1:
        raise AnalysisBroken("xzgrep: sed_script assignment not found")
    n, v, c, ctx = scr[0]
    dq = v.parts[0][1] if len(v.parts) == 1 and v.parts[0][0] == "dq" else None
    ok_shape = dq is not None and len(dq) == 3 and dq[0][0] == "lit" and dq[1][0] == "param" and dq[2][0] == "lit"
    delim = None
    if ok_shape:
        head, tail = dq[0][1], dq[2][1]
        if len(head) == 4 and head[0] == "s" and head[1] == head[3] and head[2] == "^" and tail == head[1]:
            delim = head[1]
        else:
            ok_shape = False
    var = dq[1][1] if ok_shape else None
    ck.ob("C20-SED", "script-shape", ok_shape, s.where(c["line"]),
          "xzgrep: sed_script=%s inserts $%s as the replacement of s%s^%s...%s" % (v.text(), var, delim, delim, delim),
          key="SED:shape")
    if not ok_shape:
        return
    # the sanitising case on $var precedes in the same list
    need = {delim, "&", "\\", "\n"}
    found = None
    for c2, ctx2 in s.cmds:
        if c2["t"] == "case" and case_subject_var(c2) == var and c2["line"] < c["line"]:
            chars = set()
            for pats, body, ln in c2["arms"]:
                for pt in pats:
                    for p in pt.parts:
                        if p[0] == "sq" and len(p[1]) == 1:
                            chars.add(p[1])
            if chars:
                found = (c2, chars)
    ck.ob("C20-SED", "case-chars", found is not None and found[1] == need, s.where(found[0]["line"]) if found else s.rel,
          "xzgrep: escaping is applied when $%s contains any of %s (needed: delimiter %r, &, backslash, newline)" % (
              var, sorted(found[1]) if found else None, delim), key="SED:case-chars")
    if found is None:
        return
    case = found[0]
    body_cmds = [x for pats, body, ln in case["arms"] for x, _ in sh.walk_commands(body)]
    asg = [x for x in body_cmds if x["t"] == "simple" and x["assigns"] and x["assigns"][0][0] == var]
    prog_ok = False
    fallback_ok = False
    prog_txt = None
    for x in asg:
        val = x["assigns"][0][1]
        subs = [p for p, q in word_cmdsubs(val)]
        if subs:
            for cc, _ in sh.walk_commands(subs[0][1]):
                if cc["t"] == "simple" and cc["words"] and cc["words"][0].plain() == "sed":
                    prog_txt = sh.static_value(cc["words"][-1])
                if cc["t"] == "simple" and cc["words"] and cc["words"][0].plain() == "printf":
                    pass
        elif sh.static_value(val) is not None:
            fallback_ok = True
    if prog_txt:
        cmds_ = [t.strip() for t in prog_txt.split(";")]
        br = None
        for t in cmds_:
            if t.startswith("s/[") and t.endswith("]/\\\\&/g"):
                br = set(t[3:t.index("]/")].replace("\\|", "|").replace("\\\\", "\\"))
                inner = t[3:t.index("]/")]
                br = set()
                i = 0
                while i < len(inner):
                    br.add(inner[i])
                    i += 1
        cont = "$!s/$/\\\\/" in cmds_
        prog_ok = br is not None and {delim, "&", "\\"} <= br and cont
    ck.ob("C20-SED", "escape-set", prog_ok, s.where(case["line"]),
          "xzgrep: sed program %r escapes the delimiter %r, & and backslash, and continues every line but the last" % (
              prog_txt, delim), key="SED:escape-set")
    # failure of sed yields a constant: the assignment is `i=$(...) || i='const'`
    andors = [a for c2, ctx2 in s.cmds for a in ctx2 if a["t"] == "andor"]
    fb = False
    for a in andors:
        if len(a["items"]) == 2 and a["items"][1][0] == "||":
            l, r = a["items"][0][1]["cmds"], a["items"][1][1]["cmds"]
            if len(l) == 1 and len(r) == 1 and l[0]["t"] == "simple" and r[0]["t"] == "simple" and \
                    [n_ for n_, _ in l[0]["assigns"]] == [var] and [n_ for n_, _ in r[0]["assigns"]] == [var] and \
                    sh.static_value(r[0]["assigns"][0][1]) is not None and list(word_cmdsubs(l[0]["assigns"][0][1])):
                fb = True
    ck.ob("C20-SED", "sed-failure-constant", fb, s.where(case["line"]),
          "xzgrep: if the escaping sed fails, $%s becomes a constant string" % var, key="SED:fallback")
    # sed "$sed_script" quoted
    used = [c2 for c2, _ in s.cmds if c2["t"] == "simple" and c2["words"] and c2["words"][0].plain() == "sed"
            and any(nm == "sed_script" for w in c2["words"] for nm, q, p in word_params(w))]
    okq = bool(used) and all(q for c2 in used for w in c2["words"] for nm, q, p in word_params(w) if nm == "sed_script")
    ck.ob("C20-SED", "script-quoted", okq, s.where(used[0]["line"]) if used else s.rel,
          "xzgrep: sed \"$sed_script\" receives the program as one quoted word", key="SED:quoted")


# ---------------------------------------------------------------------------------------------------------------
def check_opt(ck, s, tainted):
    n = 0
    for c, ctx in s.cmds:
        if c["t"] != "simple" or not c["words"]:
            continue
        w0 = c["words"][0]
        name = w0.plain()
        params0 = [nm for nm, q, p in word_params(w0)]
        is_decomp = bool(params0) and params0[0] in ("uncompress", "xz", "xz1", "xz2")
        if not (is_decomp or name == "mkdir"):
            continue
        args = c["words"][1:]
        file_idx = [i for i, w in enumerate(args) if any(nm in tainted or nm in ("tmp", "TMPDIR") for nm, q, p in word_params(w))]
        if not file_idx:
            continue
        n += 1
        dd = [i for i, w in enumerate(args) if w.plain() == "--"]
        ok = bool(dd) and dd[0] < file_idx[0]
        ck.ob("C20-OPT", "%s:dashdash:%d" % (s.name, c["line"]), ok, s.where(c["line"]),
              "%s: `%s` passes -- before the file operand" % (s.name, " ".join(w.text() for w in c["words"])),
              key="OPT:%s:dashdash" % s.name)
    if s.name == "xzdiff":
        cmps = [(v, c) for (n_, v, c, ctx) in s.assigns if n_ == "cmp"]
        last = max(cmps, key=lambda t: t[1]["line"]) if cmps else None
        evals = [c for c, _ in s.cmds if c["t"] == "simple" and c["words"] and c["words"][0].plain() == "eval"]
        ok = last is not None and last[0].text() == '"$cmp --"' and all(e["line"] > last[1]["line"] for e in evals)
        ck.ob("C20-OPT", "xzdiff:cmp-dashdash", ok, s.where(last[1]["line"]) if last else s.rel,
              "xzdiff: the diff/cmp command line ends with -- before any file operand is appended (last store: %s)" % (
                  last[0].text() if last else None), key="OPT:xzdiff:cmp-dashdash")
        n += 1
    if s.name == "xzless":
        lo = [(v, c) for (n_, v, c, ctx) in s.assigns if n_ == "LESSOPEN"]
        ok = bool(lo) and all((sh.unparse_parts(v.parts)).rstrip('"').endswith("-- %s") for v, c in lo)
        ck.ob("C20-OPT", "xzless:lessopen", ok, s.where(lo[0][1]["line"]) if lo else s.rel,
              "xzless: every LESSOPEN preprocessor command ends in `-- %%s` (%d variants)" % len(lo),
              key="OPT:xzless:lessopen")
        n += 1
    return n


def check_lessmeta(ck, s):
    """xzless hands the file name to less, which builds a shell command from it for the input preprocessor (LESSOPEN) and
    escapes exactly the characters listed in LESSMETACHARS.  The default list that xzless sets must contain every
    character with a meaning to the shell, the backslash included; a character missing from it is passed to the shell
    unescaped, i.e. the file name is executed as shell code."""
    need = set(" \t\n';*?\"()<>[|&^`#\\$%=~")
    got = None
    site = None
    env = {}
    for (name, v, c, ctx) in s.assigns:
        val = ""
        okv = True
        for part in v.parts:
            kind = part[0]
            if kind == "sq":
                val += part[1]
            elif kind in ("lit", "esc"):
                val += part[1]
            elif kind == "dq":
                for q in part[1]:
                    if q[0] in ("lit", "esc"):
                        val += q[1]
                    elif q[0] == "param" and q[1] in env and q[2] is None:
                        val += env[q[1]]
                    else:
                        okv = False
            else:
                okv = False
        if okv:
            env[name] = val
        if name == "LESSMETACHARS":
            got = val if okv else None
            site = c
    if site is None:
        raise AnalysisBroken("xzless: assignment to LESSMETACHARS not found")
    if got is None:
        raise AnalysisBroken("xzless: the value assigned to LESSMETACHARS cannot be evaluated")
    missing = sorted(need - set(got))
    ck.ob("C20-QUOTE", "xzless:lessmetachars", not missing, s.where(site["line"]),
          "xzless: the default LESSMETACHARS covers every shell metacharacter (%d characters)" % len(set(got)) if not missing else
          "xzless: the default LESSMETACHARS lacks %s: less passes these characters of a file name to the shell unescaped when it "
          "runs the LESSOPEN preprocessor, so a name such as `note;cmd` or `a\\;b` runs a command or shows another file" % (
              " ".join(repr(ch) for ch in missing)), key="QUOTE:xzless:lessmetachars")
    return 1


def _override_path(p):
    ov = os.environ.get("XZ_VERIF_FILE_OVERRIDE")
    for pair in (ov or "").split(","):
        if "=" in pair:
            orig, repl = pair.split("=", 1)
            if os.path.abspath(orig) == os.path.abspath(p):
                return repl
    return p


def check_names(ck, s):
    """xzgrep is installed under several names (CMakeLists.txt: XZGREP_LINKS = xzegrep xzfgrep lzgrep lzegrep lzfgrep); the
    `case ${0##*/}` at the top selects grep -E / grep -F from the name.  Every installed *egrep name has to reach the -E arm
    and every *fgrep name the -F arm, the rest neither: otherwise lzegrep 'a|b' searches for the literal string."""
    import fnmatch
    import re
    cm = open(_override_path(os.path.join(REPO, "CMakeLists.txt"))).read()
    names = {"xzgrep"}
    for m in re.finditer(r"(?:set|list)\(\s*(?:APPEND\s+)?XZGREP_LINKS\s+([^)]*)\)", cm):
        names |= set(m.group(1).split())
    if not {"xzegrep", "xzfgrep", "lzegrep", "lzfgrep"} <= names:
        raise AnalysisBroken("CMakeLists.txt: XZGREP_LINKS not understood (%s)" % sorted(names))
    case = None
    for c, ctx in s.cmds:
        if c["t"] == "case" and c["word"].text() in ("${0##*/}", "$0", "${0}"):
            case = c
            break
    if case is None:
        raise AnalysisBroken("xzgrep: `case ${0##*/}` not found")
    n = 0
    for nm in sorted(names):
        want = "-E" if nm.endswith("egrep") else "-F" if nm.endswith("fgrep") else ""
        got = None
        for arm in case["arms"]:
            pats, body = arm[0], arm[1]
            if any(fnmatch.fnmatchcase(nm, p_.text()) for p_ in pats):
                txt = " ".join(v.text() for c2, ctx2 in sh.walk_commands(body) if c2["t"] == "simple" for (a, v) in c2["assigns"] if a == "grep")
                got = "-E" if "-E" in txt else "-F" if "-F" in txt else ""
                break
        n += 1
        ck.ob("C20-STATUS", "xzgrep:name:%s" % nm, got == want, s.where(case["line"]),
              "%s selects grep %s" % (nm, want or "(basic)") if got == want else
              "xzgrep: invoked as %s the script runs `grep %s` instead of `grep %s`: the pattern is interpreted with the wrong "
              "syntax (e.g. `%s 'a|b'` searches for the literal text), unlike %s on the decompressed data" % (
                  nm, got if got else "(basic)", want or "(basic)", nm, nm[2:]), key="STATUS:xzgrep:name:%s" % nm)
    return n


def check_status(ck, s, tainted):
    n = 0
    if s.name in ("xzgrep", "xzdiff"):
        # the decompressors and grep/diff must die from SIGPIPE when their reader goes away: with the signal ignored gzip
        # and bzip2 report "Broken pipe" with a non-zero status (xzdiff's own comment says so), which the scripts then
        # take for a decompression error (exit 2 for a file that matched / compared fine)
        ign = None
        for c, ctx in s.cmds:
            if c["t"] == "simple" and c["words"] and c["words"][0].plain() == "trap" and len(c["words"]) >= 3:
                act = c["words"][1].text()
                sigs = [w.text().strip('"').upper() for w in c["words"][2:]]
                if act in ("''", '""') and any(x in ("PIPE", "SIGPIPE", "13") for x in sigs):
                    ign = c
        n += 1
        ck.ob("C20-STATUS", "%s:sigpipe-not-ignored" % s.name, ign is None, s.where(ign["line"]) if ign else s.rel,
              "%s: SIGPIPE is never set to be ignored" % s.name if ign is None else
              "%s: `trap '' PIPE` makes every child ignore SIGPIPE: when grep/diff stops reading early (-q, -l, -m, a difference "
              "found) gzip/bzip2 fail with `Broken pipe` and a non-zero status instead of dying from the signal, and the script "
              "reports an error (2) for a file that is intact" % s.name, key="STATUS:%s:sigpipe-not-ignored" % s.name)
    for (name, v, c, ctx) in s.assigns:
        for p, q in word_cmdsubs(v):
            body = p[1]
            first = None
            try:
                first = body["items"][0]["items"][0][1]["cmds"][0]
            except (IndexError, KeyError):
                pass
            if first is not None and first["t"] == "simple" and first["words"] and first["words"][0].plain() == "exec":
                ok, why = capture_clean(p)
                n += 1
                ck.ob("C20-STATUS", "%s:capture:%s:%d" % (s.name, name, c["line"]), ok, s.where(c["line"]),
                      "%s: %s=$(exec ...) %s" % (s.name, name, why), key="STATUS:%s:capture:%s" % (s.name, name))
    if s.name == "xzdiff":
        # readability loop before any decompression; exit 2 mapping at the end
        loops = [c for c, _ in s.cmds if c["t"] == "for" and c["words"] is None]
        okl = False
        for f_ in loops:
            cmds = [x for x, _ in sh.walk_commands(f_["body"])]
            has_in = any(any(op == "<" and any(nm == f_["var"] and q for nm, q, p in word_params(w))
                             for (fd, op, w) in x.get("redirs", [])) for x in cmds)
            has_exit2 = any(x["t"] == "simple" and [w.text() for w in x["words"]] == ["exit", "2"] for x in cmds)
            first_decomp = min([x["line"] for x, _ in s.cmds if x["t"] == "simple" and x["words"] and
                                any(nm in ("xz1", "xz2") for nm, q, p in word_params(x["words"][0]))] or [0])
            if has_in and has_exit2 and f_["line"] < first_decomp:
                okl = True
        ck.ob("C20-STATUS", "xzdiff:readable-first", okl, s.rel,
              "xzdiff: every operand is opened for reading (exit 2 on failure) before any decompressor runs",
              key="STATUS:xzdiff:readable")
        fin = [c for c, _ in s.cmds if c["t"] == "for" and c["words"] and
               any(nm == "xz_status" for w in c["words"] for nm, q, p in word_params(w))]
        okf = False
        for f_ in fin:
            cmds = [x for x, _ in sh.walk_commands(f_["body"])]
            if any(x["t"] == "simple" and [w.text() for w in x["words"]] == ["exit", "2"] for x in cmds):
                okf = True
        ck.ob("C20-STATUS", "xzdiff:decompressor-status", okf, s.rel,
              "xzdiff: a non-zero, non-SIGPIPE decompressor status turns the result into exit 2",
              key="STATUS:xzdiff:exit2")
        n += 2
        # ... evaluated for the statuses a decompressor can exit with: only 0 is harmless (bzip2 exits 2 for a corrupt
        # file, xz exits 2 for "unsupported check", gzip 2 for a warning: none of them proves the data was complete)
        import fnmatch

        class _Exit(Exception):
            pass

        class _Continue(Exception):
            pass

        def _w(w, env):
            t_ = w.text().strip('"')
            return str(env.get(t_[1:], "")) if t_.startswith("$") else t_

        def _simple(cmd, env):
            ws = cmd["words"]
            if not ws:
                return True
            w0 = ws[0].text()
            if w0 == "continue":
                raise _Continue()
            if w0 == "exit":
                raise _Exit(_w(ws[1], env) if len(ws) > 1 else "?")
            if w0 == "test" and len(ws) == 4:
                a, op_, b_ = _w(ws[1], env), ws[2].text(), _w(ws[3], env)
                if op_ in ("-eq", "-ne", "-lt", "-le", "-gt", "-ge"):
                    a, b_ = int(a), int(b_)
                    return {"-eq": a == b_, "-ne": a != b_, "-lt": a < b_, "-le": a <= b_, "-gt": a > b_, "-ge": a >= b_}[op_]
                if op_ in ("=", "!="):
                    # `$(kill -l $num)` = PIPE : not a signal status in this evaluation
                    return (op_ == "!=")
            raise AnalysisBroken("xzdiff: statement `%s` in the status loop not understood" % " ".join(x.text() for x in ws))

        def _exec_list(lst, env):
            for it in lst["items"]:
                ok = True
                for k_, (op_, pl) in enumerate(it["items"]):
                    if k_ > 0 and ((op_ == "&&" and not ok) or (op_ == "||" and ok)):
                        continue
                    cmd = pl["cmds"][0]
                    if cmd["t"] == "simple":
                        ok = _simple(cmd, env)
                    elif cmd["t"] == "case":
                        val = _w(cmd["word"], env)
                        for pats, body, aln in cmd["arms"]:
                            if any(fnmatch.fnmatchcase(val, (pt.text() if hasattr(pt, "text") else str(pt)).strip()) for pt in pats):
                                _exec_list(body, env)
                                break
                        ok = True
                    elif cmd["t"] == "if":
                        done = False
                        for cond, body in cmd["clauses"]:
                            try:
                                _exec_list(cond, env)
                                c_ok = True
                            except AnalysisBroken:
                                raise
                            # the status of a list is the status of its last command: re-evaluate the last simple test
                            lastc = cond["items"][-1]["items"][-1][1]["cmds"][0]
                            c_ok = _simple(lastc, env) if lastc["t"] == "simple" else True
                            if c_ok:
                                _exec_list(body, env)
                                done = True
                                break
                        if not done and cmd["else"] is not None:
                            _exec_list(cmd["else"], env)
                        ok = True
                    else:
                        raise AnalysisBroken("xzdiff: compound command `%s` in the status loop not understood" % cmd["t"])
        wits = None
        for f_ in fin:
            for num in (0, 1, 2, 3, 127):
                res_ = "fallthrough"
                try:
                    _exec_list(f_["body"], {"num": num})
                except _Continue:
                    res_ = "continue"
                except _Exit as x_:
                    res_ = "exit %s" % x_.args[0]
                want = "continue" if num == 0 else "exit 2"
                if res_ != want and wits is None:
                    wits = (num, res_, want, f_["line"])
        n += 1
        ck.ob("C20-STATUS", "xzdiff:status-loop", bool(fin) and wits is None, s.where(wits[3]) if wits else s.rel,
              "xzdiff: decompressor status 0 is skipped, statuses 1, 2, 3 and 127 give exit 2" if wits is None else
              "xzdiff: a decompressor that exited with status %d makes the status loop `%s` (required: %s): an operand that could "
              "not be decompressed completely (bzip2 uses 2 for a corrupt file) is compared as if it were intact and the "
              "script returns diff's verdict instead of 2" % wits[:3], key="STATUS:xzdiff:status-loop")
    if s.name == "xzdiff":
        # each operand is decompressed with the decompressor chosen from *its own* suffix
        for c, ctx in s.cmds:
            if c["t"] != "simple" or not c["words"]:
                continue
            p0 = [nm for nm, q, p in word_params(c["words"][0])]
            if not p0 or p0[0] not in ("xz1", "xz2"):
                continue
            ops = [nm for w in c["words"][1:] for nm, q, p in word_params(w) if nm in ("1", "2")]
            if not ops:
                continue
            n += 1
            want = p0[0][-1]
            ck.ob("C20-STATUS", "xzdiff:pair:%d" % c["line"], all(o == want for o in ops), s.where(c["line"]),
                  "xzdiff: `%s` decompresses operand $%s with the decompressor selected for operand %s" % (
                      " ".join(w.text() for w in c["words"]), ",".join(ops), want) if all(o == want for o in ops) else
                  "xzdiff: `%s` decompresses operand $%s with $%s, the decompressor that was selected from the suffix of "
                  "the OTHER operand: a .gz/.bz2 file is then compared as raw compressed bytes" % (
                      " ".join(w.text() for w in c["words"]), ",".join(ops), p0[0]), key="STATUS:xzdiff:pair")
    if s.name == "xzdiff":
        # the "is this operand compressed" decision is written out three times (for $1, for $2 when $1 is compressed, for
        # $2 when $1 is not): the three suffix lists are siblings and must be the same set of patterns
        lists = []
        for c, ctx in s.cmds:
            if c["t"] != "case":
                continue
            for pats, body, ln in c["arms"]:
                txt = [p_.text() if hasattr(p_, "text") else str(p_) for p_ in pats]
                if "*[-.][gx]z" in txt and "-" in txt:
                    lists.append((ln, frozenset(txt), c["word"].text()))
        if len(lists) < 3:
            raise AnalysisBroken("xzdiff: expected three suffix lists (case arms containing *[-.][gx]z), found %d" % len(lists))
        ref = max(set(x[1] for x in lists), key=lambda fs: sum(1 for x in lists if x[1] == fs))
        n += 1
        odd = [x for x in lists if x[1] != ref]
        ck.ob("C20-STATUS", "xzdiff:suffix-lists", not odd, s.where(odd[0][0]) if odd else s.rel,
              "xzdiff: the %d lists of compressed-file suffixes are identical (%d patterns)" % (len(lists), len(ref)) if not odd else
              "xzdiff: the suffix list tested on %s at line %d differs from its siblings (missing %s, extra %s): an operand with "
              "that suffix is decompressed in one argument position and compared as raw bytes in the other" % (
                  odd[0][2], odd[0][0], sorted(ref - odd[0][1]), sorted(odd[0][1] - ref)), key="STATUS:xzdiff:suffix-lists")
    if s.name == "xzdiff":
        # `-` is an accepted operand (the suffix lists end with `| -`): the decompressor that gets "$1"/"$2" then reads the
        # script's standard input, so it must not run with stdin taken from /dev/null (or any other file)
        for c, ctx in s.cmds:
            if c["t"] != "simple" or not c["words"]:
                continue
            p0 = [nm for nm, q, p in word_params(c["words"][0])]
            if not p0 or p0[0] not in ("xz1", "xz2"):
                continue
            ops = [nm for w in c["words"][1:] for nm, q, p in word_params(w) if nm in ("1", "2")]
            if not ops:
                continue
            # is `-` possible for this operand here?  (an enclosing case arm on that operand lists `-`)
            dash_ok = False
            for a in ctx:
                if a.get("t") == "case" and any(nm == ops[0] for nm, q, p in word_params(a["word"])):
                    for pats, body, ln in a["arms"]:
                        txt = [p_.text() if hasattr(p_, "text") else str(p_) for p_ in pats]
                        if "-" in txt and any(x is c for x, _ in sh.walk_commands(body)):
                            dash_ok = True
            if not dash_ok:
                continue
            n += 1
            stolen = None
            for node in (c,) + tuple(ctx):
                for (fd_, op_, w_) in node.get("redirs", []) or []:
                    if op_ == "<" and fd_ in (None, 0, "0", "") and w_.text() not in ("&0",):
                        stolen = (node, w_.text())
            ck.ob("C20-STATUS", "xzdiff:stdin-operand:%d" % c["line"], stolen is None, s.where(c["line"]),
                  "xzdiff: `%s` keeps the script's standard input (operand may be `-`)" % " ".join(w.text() for w in c["words"])
                  if stolen is None else
                  "xzdiff: `%s` can be given the operand `-` (standard input), but it runs with `<%s`: `xzdiff FILE.xz - <OTHER` "
                  "compares FILE with empty data (identical files are reported as different, an empty FILE as identical)" % (
                      " ".join(w.text() for w in c["words"]), stolen[1]), key="STATUS:xzdiff:stdin-operand")
    if s.name == "xzdiff":
        # decompressor selection: the arms of `case $1` assign xz1, the arms of `case $2` assign xz2 (sibling blocks)
        for c, ctx in s.cmds:
            if c["t"] != "case":
                continue
            opn = [nm for nm, q, p in word_params(c["word"]) if nm in ("1", "2")]
            if len(opn) != 1:
                continue
            asg = [(nm, x["line"]) for pats, body, ln in c["arms"] for x, _ in sh.walk_commands(body)
                   if x["t"] == "simple" and not x["words"] for (nm, v_) in x.get("assigns", []) if nm in ("xz1", "xz2")]
            if not asg:
                continue
            n += 1
            wrong = [(nm, ln) for nm, ln in asg if nm != "xz" + opn[0]]
            ck.ob("C20-STATUS", "xzdiff:select:%s:%d" % (opn[0], c["line"]), not wrong, s.where(wrong[0][1] if wrong else c["line"]),
                  "xzdiff: every arm of `case $%s` assigns xz%s (%d arms)" % (opn[0], opn[0], len(asg)) if not wrong else
                  "xzdiff: an arm of `case $%s` assigns %s (line %d): the decompressor for operand %s is chosen from the suffix of "
                  "the other operand, so e.g. a .bz2 file is fed to xz, passed through unchanged and compared as raw bytes" % (
                      opn[0], wrong[0][0], wrong[0][1], "1" if wrong[0][0] == "xz1" else "2"),
                  key="STATUS:xzdiff:select")
    if s.name == "xzgrep":
        # res only moves 1 -> 0 (match) or up to the largest error: every later store is guarded by a test of $res
        for (name, v, c, ctx) in s.assigns:
            if name != "res" or sh.static_value(v) == "1":
                continue
            guarded = False
            for anc in reversed(ctx):
                if anc["t"] == "andor" and len(anc["items"]) == 2 and anc["items"][1][0] == "&&":
                    left = anc["items"][0][1]["cmds"]
                    right = anc["items"][1][1]["cmds"]
                    if len(left) == 1 and left[0]["t"] == "simple" and left[0]["words"] and \
                            left[0]["words"][0].plain() == "test" and right and right[0] is c and \
                            any(nm == "res" for w in left[0]["words"] for nm, q, p in word_params(w)):
                        guarded = True
            n += 1
            ck.ob("C20-STATUS", "xzgrep:res:%d" % c["line"], guarded, s.where(c["line"]),
                  "xzgrep: res=%s is executed only under a test of the current $res" % v.text() if guarded else
                  "xzgrep: res=%s at line %d is unconditional: a match in a later file erases the error status (>= 2) "
                  "recorded for an earlier file" % (v.text(), c["line"]), key="STATUS:xzgrep:res-monotone")
        # ... and the update as a whole is the documented accumulator: finite evaluation of the if/elif over
        # (res, r) in {0..3} x {0..3} against  r >= 2: res = max(res, r);  r == 0: res = 0 if res == 1;  else unchanged
        def _val(w, env):
            t_ = w.text().strip('"')
            if t_.startswith("$"):
                return env[t_[1:]]
            return int(t_)

        def _test(words, env):
            if len(words) != 4 or words[0].text() != "test":
                raise AnalysisBroken("xzgrep: status test `%s` not understood" % " ".join(w.text() for w in words))
            a, b_ = _val(words[1], env), _val(words[3], env)
            return {"-lt": a < b_, "-le": a <= b_, "-gt": a > b_, "-ge": a >= b_, "-eq": a == b_, "-ne": a != b_}[words[2].text()]

        def _run_list(lst, env):
            # a list of and-or items:  test ... && res=V
            for it in lst["items"]:
                pipes = it["items"]
                ok = True
                for k_, (op_, pl) in enumerate(pipes):
                    if k_ > 0 and ((op_ == "&&" and not ok) or (op_ == "||" and ok)):
                        continue
                    cmd = pl["cmds"][0]
                    if cmd["t"] != "simple":
                        raise AnalysisBroken("xzgrep: status update contains a compound command")
                    if cmd["words"]:
                        ok = _test(cmd["words"], env)
                    else:
                        for (nm, v_) in cmd["assigns"]:
                            env[nm] = _val(v_, env)
                        ok = True
        upd = None
        for c, ctx in s.cmds:
            if c["t"] == "if":
                first = [x for x, _ in sh.walk_commands(c["clauses"][0][0]) if x["t"] == "simple"]
                if first and [w.text() for w in first[0]["words"]][:2] == ["test", '"$r"'] and \
                        any(nm == "res" for x, _ in sh.walk_commands(c["clauses"][0][1]) for (nm, v_) in x.get("assigns", [])):
                    upd = c
        if upd is None:
            raise AnalysisBroken("xzgrep: the if/elif that folds $r into $res was not found")
        wit = None
        for res0 in range(4):
            for r0 in range(4):
                env = {"res": res0, "r": r0}
                done = False
                for cond, body in upd["clauses"]:
                    cw = [x for x, _ in sh.walk_commands(cond) if x["t"] == "simple"][0]["words"]
                    if _test(cw, env):
                        _run_list(body, env)
                        done = True
                        break
                if not done and upd["else"] is not None:
                    _run_list(upd["else"], env)
                want = max(res0, r0) if r0 >= 2 else (0 if (r0 == 0 and res0 == 1) else res0)
                if r0 >= 2 and res0 in (0, 1):
                    want = r0
                if env["res"] != want and wit is None:
                    wit = (res0, r0, env["res"], want)
        n += 1
        ck.ob("C20-STATUS", "xzgrep:res-accumulator", wit is None, s.where(upd["line"]),
              "xzgrep: the status update equals `error: max; match: 1 -> 0` on all 16 (res, r) pairs" if wit is None else
              "xzgrep: with res=%d from the earlier files and r=%d for this file the script sets res=%d, the documented result is "
              "%d (a decompression/grep error must never be masked by matches in other files)" % wit,
              key="STATUS:xzgrep:res-accumulator")
        # a failed decompressor makes this file's status an error whatever grep said about the part it saw
        dec = None
        for c, ctx in s.cmds:
            if c["t"] != "if":
                continue
            for cond, body in c["clauses"]:
                cw = [x for x, _ in sh.walk_commands(cond) if x["t"] == "simple"]
                if cw and [w.text() for w in cw[0]["words"]] == ["test", '"$xz_status"', "-gt", "0"]:
                    dec = (c, body)
        if dec is None:
            raise AnalysisBroken("xzgrep: the clause handling a failed decompressor (`test \"$xz_status\" -gt 0`) was not found")
        witd = None
        for r0 in range(4):
            env = {"r": r0, "xz_status": 1, "res": 1}
            _run_list(dec[1], env)
            if env["r"] < 2 and witd is None:
                witd = (r0, env["r"])
        n += 1
        ck.ob("C20-STATUS", "xzgrep:decomp-failure", witd is None, s.where(dec[0]["line"]),
              "xzgrep: after a failed decompressor the file's status r is >= 2 for every grep status 0..3" if witd is None else
              "xzgrep: when the decompressor failed and grep returned %d the file's status stays %d: an undecodable file is "
              "reported as %s instead of status 2" % (witd[0], witd[1], "a match" if witd[1] == 0 else "no match"),
              key="STATUS:xzgrep:decomp-failure")
        ex_ = [c for c, _ in s.cmds if c["t"] == "simple" and c["words"] and c["words"][0].plain() == "exit"]
        last = s.ast["items"][-1]["items"][0][1]["cmds"][0]
        okx = last["t"] == "simple" and [w.text() for w in last["words"]] == ["exit", '"$res"']
        ck.ob("C20-STATUS", "xzgrep:final-exit", okx, s.where(last["line"]),
              "xzgrep: the script ends with exit \"$res\"", key="STATUS:xzgrep:final-exit")
        n += 1
    return n


def run(ck):
    ck.explanation = (
        "The four wrapper scripts are parsed by a POSIX shell parser written for this purpose; quoting, eval and sed "
        "discipline are decided on the AST: taint from the positional parameters, double-quote / no-split position of "
        "every tainted expansion, shape of every eval argument and of every store to the shell-code accumulators, the "
        "escape program, the sed label fallback, `--` before file operands, and the exit-status capture plumbing.")
    ck.not_decided = ("equality of output and exit status with grep/diff/cmp on the decompressed data; behaviour of the "
                      "external tools (sed, expr, grep --label); signal handling.")
    for r, t in (("C20-QUOTE", "tainted expansions are double-quoted or in no-split positions; echo/printf/test discipline"),
                 ("C20-EVAL", "eval arguments and accumulator stores use only the two escaping idioms"),
                 ("C20-SED", "sed label fallback escapes delimiter, &, backslash, newline"),
                 ("C20-OPT", "-- precedes file operands"),
                 ("C20-STATUS", "status capture plumbing and exit-2 mapping")):
        ck.rule(r, t)
    tot = {"exp": 0, "eval": 0, "store": 0, "opt": 0, "status": 0}
    for name in SCRIPTS:
        s = Script(name)
        ck.extra.setdefault("scripts", []).append({"script": s.rel, "commands": len(s.cmds)})
        tainted = compute_taint(s)
        tot["exp"] += check_quote(ck, s, tainted)
        e, st = check_eval(ck, s, tainted)
        tot["eval"] += e
        tot["store"] += st
        if name == "xzgrep":
            check_sed(ck, s, tainted)
        if name == "xzgrep":
            tot["status"] += check_names(ck, s)
        if name == "xzless":
            tot["exp"] += check_lessmeta(ck, s)
        tot["opt"] += check_opt(ck, s, tainted)
        tot["status"] += check_status(ck, s, tainted)
    # the scripts run xz with -qQ and take its exit status as "the file could not be read/decoded" (status 2): an
    # operand that xz cannot even open has to be an ERROR in xz (a warning is turned into status 0 by -Q)
    from . import common as _common
    from sa import ex as _ex
    px = _common.program(ck, ("xz",), files=("/file_io.c",))
    f = px.fn("io_open_src", "file_io.c", target="xz")
    ck.saw_function(f)
    emp = [b for b in f.blocks.values() if b.term and "cond" in b.term and len(b.succs) == 2 and
           _ex.show(_ex.strip(b.term["cond"])).replace(" ", "") in ("src_name[0]==0", "src_name[0]=='\\0'")]
    if not emp:
        raise AnalysisBroken("io_open_src: the test for an empty file name was not found")
    tb = f.blocks[emp[0].succs[0]]
    calls = [c.get("fn") for e in tb.elems if e is not None for c in _ex.calls(e, into_refs=False)]
    oke = "message_error" in calls and "message_warning" not in calls
    ck.ob("C20-STATUS", "xz:empty-name-is-error", oke, _common.where(f, emp[0].term["cond"]),
          "xz io_open_src: an empty file name is reported with message_error()" if oke else
          "xz io_open_src(): an empty file name is reported with %s: under -Q (as the scripts call xz) the exit status stays 0, "
          "so `xzgrep pat \"\"` returns 1 (or 0) where grep returns 2" % [c for c in calls if c], key="STATUS:xz:empty-name-is-error")
    tot["status"] += 1
    # grep -q / -l, cmp and diff stop reading as soon as they know the answer; xz then gets EPIPE (or SIGPIPE, which the
    # scripts recognise by a status >= 128).  The scripts turn every other non-zero status of xz into 2, so with SIGPIPE
    # ignored (nohup, some CI runners) the answer stays grep's only if xz does not make EPIPE an error of its own.
    from sa import guard as _guard
    wb = px.fn("io_write_buf", "file_io.c", target="xz")
    ck.saw_function(wb)
    ge = _guard.find_cmp(wb, "call:__errno_location", "const:32")
    if not ge:
        raise AnalysisBroken("io_write_buf: the comparison of errno with EPIPE was not found")
    loud = None
    for g_ in ge:
        blk = wb.blocks[g_.bid]
        seen, st = set(), [blk.succs[0] if g_.pass_label == "T" else blk.succs[1]]
        while st:
            x = st.pop()
            if x is None or x in seen:
                continue
            seen.add(x)
            for e in wb.blocks[x].elems:
                if e is None:
                    continue
                for c in _ex.calls(e, into_refs=False):
                    if c.get("fn") in ("message_error", "message_fatal", "set_exit_status"):
                        loud = loud or c
            st.extend(wb.blocks[x].succs)
    ck.ob("C20-STATUS", "xz:epipe-is-not-an-error", loud is None, _common.where(wb, loud if loud else ge[0].line),
          "xz io_write_buf: EPIPE ends the writing without an error status of xz's own" if loud is None else
          "xz io_write_buf(): a write that fails with EPIPE now calls %s(): when SIGPIPE is ignored, `xzgrep -q`/`-l`, xzcmp and xzdiff "
          "(whose grep/cmp/diff legitimately stop reading early) see xz exit 1 and report 2 where grep/cmp/diff on the decompressed "
          "data report 0 or 1" % loud.get("fn"), key="STATUS:xz:epipe-is-not-an-error")
    tot["status"] += 1
    # the scripts decompress with `xz -dcf`: a file that xz does not recognise is copied through unchanged, so what xz
    # recognises as .lzma has to be what the library decodes (rules shared with C16)
    from . import C16 as _C16
    ck.rule("C20-FMT", "xz recognises exactly the .lzma headers that liblzma's .lzma decoder accepts")
    pc = _common.program(ck, ("xz",), files=("/coder.c",))
    _C16.check_xz_lzma_heur(ck, pc, rule="C20-FMT")
    _C16.check_xz_lzma_size(ck, _common.program(ck, ("liblzma",), files=("/common/alone_decoder.c",)), pc, rule="C20-FMT")
    ck.extra["counts"] = tot
    ck.floor("C20-QUOTE", 20)
    ck.floor("C20-EVAL", 25)
    ck.floor("C20-SED", 5)
    ck.floor("C20-OPT", 8)
    ck.floor("C20-STATUS", 6)
    if tot["eval"] < 18 or tot["exp"] < 40:
        raise AnalysisBroken("C20: only %d eval sites / %d tainted expansions found" % (tot["eval"], tot["exp"]))
