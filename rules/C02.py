"""C02 — encoder output is a valid instance of the published formats (writer/reader/spec agreement).

C02-HDR   Stream Header/Footer, Stream Flags, Block Header, .lzma header: offsets, lengths, CRC ranges,
          flag bits and field order agree between encoder, decoder and spec/xz_format.py.
C02-LZMA2 every control byte the LZMA2 encoder can emit is in the class of spec/lzma2.py with the same
          meaning; chunk size fields are big-endian minus one on both sides.
C02-META  provenance of stored sizes: Block sizes copied from the running counters, Index Records from
          the Block just finished, Backward Size from the Index, check type from the header.
C02-CHK   check size table equals the spec.
"""
from sa import ex, cfg, fd, guard
from sa.compdb import AnalysisBroken
from . import common
import spec.xz_format as X
import spec.lzma2 as L2


def ptr_off(n, base):
    """offset of pointer expression `base + const` (None if not of that form)."""
    n = ex.strip(n)
    if n is None:
        return None
    if n.get("k") == "var" and n["n"] == base:
        return 0
    if n.get("k") == "bin" and n["op"] == "+":
        a, b = ptr_off(n["l"], base), ex.const_val(n["r"])
        if a is not None and b is not None:
            return a + b
        a, b = ex.const_val(n["l"]), ptr_off(n["r"], base)
        if a is not None and b is not None:
            return a + b
    return None


def layout_of(f, buf):
    """Collect layout operations on buffer `buf` in function f."""
    ops = {"bytes": [], "flags": [], "u32": [], "crc": [], "read32": []}
    for b, i, e in f.iter_elems():
        for c in ex.calls(e, into_refs=False):
            fn = c.get("fn")
            if fn in ("memcpy", "memcmp") and len(c["args"]) >= 3:
                for (pa, oa) in ((c["args"][0], c["args"][1]), (c["args"][1], c["args"][0])):
                    off = ptr_off(pa, buf)
                    other = ex.strip(oa)
                    if off is not None and other is not None and other.get("k") == "var":
                        ops["bytes"].append((off, ex.const_val(c["args"][2]), other["n"]))
            elif fn in ("stream_flags_encode", "stream_flags_decode"):
                off = ptr_off(c["args"][1], buf)
                if off is not None:
                    ops["flags"].append(off)
            elif fn in ("write32le", "write32ne"):
                off = ptr_off(c["args"][0], buf)
                if off is not None:
                    ops["u32"].append((off, c["args"][1]))
            elif fn == "lzma_crc32":
                off = ptr_off(c["args"][0], buf)
                if off is not None:
                    ops["crc"].append((off, ex.const_val(c["args"][1])))
            elif fn == "read32le":
                off = ptr_off(c["args"][0], buf)
                if off is not None:
                    ops["read32"].append(off)
    return ops


def check_stream(ck, prog):
    ck.rule("C02-HDR", "wire layout agreement encoder <-> decoder <-> specification")
    enc_h = prog.fn("lzma_stream_header_encode", "stream_flags_encoder.c")
    dec_h = prog.fn("lzma_stream_header_decode", "stream_flags_decoder.c")
    enc_f = prog.fn("lzma_stream_footer_encode", "stream_flags_encoder.c")
    dec_f = prog.fn("lzma_stream_footer_decode", "stream_flags_decoder.c")
    for f in (enc_h, dec_h, enc_f, dec_f):
        ck.saw_function(f)
    for name, glob, want in (("lzma_header_magic", "lzma_header_magic", X.HEADER_MAGIC),
                             ("lzma_footer_magic", "lzma_footer_magic", X.FOOTER_MAGIC)):
        g = prog.glob(glob, "stream_flags_common.c")
        got = [ex.const_val(x) for x in ex.strip(g["init"])["e"]]
        ck.ob("C02-HDR", "magic:" + name, got == want, "%s:%d" % (common.relpath(g["file"]), g["line"]),
              "%s = %s, spec %s" % (name, got, want), key="HDR:magic:" + name)
    for side, f, buf, spec, crc_store in (("header-encode", enc_h, "out", X.STREAM_HEADER, "u32"),
                                          ("header-decode", dec_h, "in", X.STREAM_HEADER, "read32"),
                                          ("footer-encode", enc_f, "out", X.STREAM_FOOTER, "u32"),
                                          ("footer-decode", dec_f, "in", X.STREAM_FOOTER, "read32")):
        ops = layout_of(f, buf)
        magic_name = "lzma_header_magic" if "header" in side else "lzma_footer_magic"
        m = [(o, l) for (o, l, nm) in ops["bytes"] if nm == magic_name]
        ck.ob("C02-HDR", side + ":magic", m == [spec["magic"]], common.where(f),
              "magic bytes at (offset, length) %s, spec %s" % (m, spec["magic"]), key="HDR:%s:magic" % side)
        ck.ob("C02-HDR", side + ":flags", ops["flags"] == [spec["flags"][0]], common.where(f),
              "Stream Flags at offset %s, spec %s" % (ops["flags"], spec["flags"][0]), key="HDR:%s:flags" % side)
        ck.ob("C02-HDR", side + ":crc-range", ops["crc"] == [spec["crc32_over"]], common.where(f),
              "CRC32 computed over (offset, length) %s, spec %s" % (ops["crc"], spec["crc32_over"]),
              key="HDR:%s:crc-range" % side)
        if crc_store == "u32":
            at = [o for (o, v) in ops["u32"] if guard.pat_match(f, v, "call:lzma_crc32")]
        else:
            # the read32le compared with the crc
            at = []
            for blk in f.blocks.values():
                t = blk.term
                if t and "cond" in t and guard.pat_match(f, t["cond"], "call:lzma_crc32"):
                    for x in ex.walk(t["cond"]):
                        if x.get("k") == "call" and x.get("fn") == "read32le":
                            o = ptr_off(x["args"][0], buf)
                            if o is not None:
                                at.append(o)
        ck.ob("C02-HDR", side + ":crc-at", at == [spec["crc32_at"]], common.where(f),
              "CRC32 field at offset %s, spec %s" % (at, spec["crc32_at"]), key="HDR:%s:crc-at" % side)
    # Backward Size: stored = real / 4 - 1 ; real = (stored + 1) * 4 ; at offset 4 (evaluated on values)
    enc_b = [(o, v) for (o, v) in layout_of(enc_f, "out")["u32"] if "backward_size" in ex.show(v)]
    dec_rhs = [r for b_, i, e in dec_f.iter_elems() for (l, r, op, n) in ex.writes(e)
               if ex.field_key(l) and ex.field_key(l)[1] == "backward_size" and r is not None]
    okb = len(enc_b) == 1 and enc_b[0][0] == 4 and len(dec_rhs) == 2
    badv = None
    if okb:
        reads = [ptr_off(x["args"][0], "in") for x in ex.walk(dec_rhs[0])
                 if x.get("k") == "call" and x.get("fn") == "read32le"]
        okb = reads == [4]
        for real in (4, 8, 12, 1024, 65536, (1 << 32), (1 << 34) - 4, 1 << 34):
            stored = _ieval(enc_b[0][1], {"options->backward_size": real}, enc_f) & 0xFFFFFFFF
            back = _ieval(dec_rhs[1], {"options->backward_size": stored}, dec_f)
            if back != real and badv is None:
                badv = (real, stored, back)
    ck.ob("C02-HDR", "backward-size", okb and badv is None, common.where(enc_f),
          "Backward Size: u32le at offset 4 on both sides and decode(encode(s)) == s for sampled multiples of 4 up "
          "to 2^34" if okb and badv is None else
          "Backward Size does not round-trip: real %s stored %s decoded %s" % (badv or ("?", "?", "?")),
          key="HDR:backward")
    # Stream Flags bytes
    se = prog.fn("stream_flags_encode", "stream_flags_encoder.c")
    sd = prog.fn("stream_flags_decode", "stream_flags_decoder.c")
    w = {ex.show(l): ex.show(r) for b, i, e in se.iter_elems() for (l, r, op, n) in ex.writes(e)}
    ck.ob("C02-HDR", "flags:encode", w.get("out[0]") == "0" and w.get("out[1]") == "options->check", common.where(se),
          "Stream Flags written as %s" % w, key="HDR:flags:encode")
    r_ = {ex.show(l): ex.show(r) for b, i, e in sd.iter_elems() for (l, r, op, n) in ex.writes(e)}
    ck.ob("C02-HDR", "flags:decode", r_.get("options->check") == "in[1] & 15", common.where(sd),
          "check type read as %s" % r_.get("options->check"), key="HDR:flags:decode")


def check_block_header(ck, prog, rule="C02-HDR", floor=30):
    if rule != "C02-HDR":
        ck.rule(rule, "Block Header: wire layout agreement encoder <-> decoder <-> specification")
    enc = prog.fn("lzma_block_header_encode", "block_header_encoder.c")
    dec = prog.fn("lzma_block_header_decode", "block_header_decoder.c")
    ck.saw_function(enc)
    ck.saw_function(dec)
    # size byte: decode(encode(hs)) == hs for every legal header size
    e_expr = None
    for b, i, e in enc.iter_elems():
        for (l, r, op, n) in ex.writes(e):
            if ex.show(l) == "out[0]":
                e_expr = guard.expand_locals(enc, r)
    d_expr = None
    for blk in dec.blocks.values():
        t = blk.term
        if t and "cond" in t and guard.pat_match(dec, t["cond"], "field:header_size"):
            c = ex.strip(t["cond"])
            if c.get("k") == "bin" and c["op"] == "!=":
                d_expr = c["l"] if "header_size" not in ex.show(c["l"]) else c["r"]
    ok = e_expr is not None and d_expr is not None
    bad = None
    if ok:
        for hs in range(8, 1025, 4):
            stored = _ieval(e_expr, {"block->header_size": hs}, enc)
            back = _ieval(d_expr, {"in[0]": stored & 0xFF}, dec)
            if back != hs:
                bad = (hs, stored, back)
                break
    ck.ob(rule, "block:size-byte", ok and bad is None, common.where(enc),
          "Block Header Size byte: decode(encode(s)) == s for all 255 legal sizes (%s / %s)" % (
              ex.show(e_expr), ex.show(d_expr)) if ok and bad is None else
          "Block Header Size byte does not round-trip: %s" % (bad,), key="HDR:block:size-byte")
    # flag bits <-> fields
    enc_flags = {}
    for b, i, e in enc.iter_elems():
        for (l, r, op, n) in ex.writes(e):
            if ex.show(l) == "out[1]" and op == "|=":
                v = ex.const_val(r)
                conds = _dom_conds(enc, b.id)
                enc_flags[v if v is not None else ex.show(r)] = conds
    want_e = {0x40: "block->compressed_size != 18446744073709551615",
              0x80: "block->uncompressed_size != 18446744073709551615"}
    for bit, cond in want_e.items():
        ok = bit in enc_flags and cond in enc_flags[bit]
        ck.ob(rule, "block:flag-encode:%#x" % bit, ok, common.where(enc),
              "flag %#x set under %s" % (bit, enc_flags.get(bit)), key="HDR:block:flag-encode:%#x" % bit)
    ck.ob(rule, "block:filter-count-encode", "filter_count - 1" in enc_flags, common.where(enc),
          "low bits = filter_count - 1", key="HDR:block:filter-count-encode")
    dec_flags = {}
    for blk in dec.blocks.values():
        t = blk.term
        if t and "cond" in t:
            c = ex.strip(t["cond"])
            if c.get("k") == "bin" and c["op"] == "&" and ex.show(c["l"]) == "in[1]":
                bit = ex.const_val(c["r"])
                tb = dec.blocks[blk.succs[0]]
                fields = sorted({ex.show(a) for e in tb.elems if e for cc in ex.calls(e, into_refs=True)
                                 if cc.get("fn") == "lzma_vli_decode" for a in cc["args"][:1]})
                dec_flags[bit] = fields
    ck.ob(rule, "block:flag-decode", dec_flags.get(0x40) == ["&block->compressed_size"] and
          dec_flags.get(0x80) == ["&block->uncompressed_size"], common.where(dec),
          "decoder: flag bits -> fields %s" % {hex(k): v for k, v in dec_flags.items() if k in (0x40, 0x80)},
          key="HDR:block:flag-decode")
    fc = [ex.show(e.get("init")) for b, i, e in dec.iter_elems() if e.get("k") == "decl" and e["n"] == "filter_count"]
    ck.ob(rule, "block:filter-count-decode", fc == ["(in[1] & 3) + 1"], common.where(dec),
          "decoder filter_count = %s" % fc, key="HDR:block:filter-count-decode")
    # field order
    def order(f, names):
        out = []
        for b, i, e in sorted(f.iter_elems(), key=lambda t: ex.line(t[2]) or 0):
            for c in ex.calls(e, into_refs=False):
                key = c.get("fn")
                if key in ("lzma_vli_encode", "lzma_vli_decode"):
                    a0 = ex.show(c["args"][0])
                    key += ":" + ("compressed" if "->compressed_size" in a0 and "uncompressed" not in a0 else
                                  "uncompressed" if "uncompressed_size" in a0 else a0)
                if key in names or key.split(":")[0] in names:
                    if not out or out[-1] != key:
                        out.append(key)
        return out
    eo = order(enc, {"lzma_vli_encode", "lzma_filter_flags_encode", "memset", "write32ne"})
    want = ["lzma_vli_encode:compressed", "lzma_vli_encode:uncompressed", "lzma_filter_flags_encode",
            "memset", "write32ne"]
    ck.ob(rule, "block:order-encode", eo == want, common.where(enc), "encoder field order %s" % eo,
          key="HDR:block:order-encode")
    do = order(dec, {"lzma_vli_decode", "lzma_filter_flags_decode"})
    ck.ob(rule, "block:order-decode", do == ["lzma_vli_decode:compressed", "lzma_vli_decode:uncompressed",
                                                   "lzma_filter_flags_decode"], common.where(dec),
          "decoder field order %s" % do, key="HDR:block:order-decode")
    # CRC32 over [0, header_size - 4) stored at header_size - 4, both sides
    ecrc = [c for b, i, e in enc.iter_elems() for c in ex.calls(e, into_refs=False) if c.get("fn") in ("write32le", "write32ne")]
    oke = bool(ecrc) and ex.show(ecrc[-1]["args"][0]) == "out + out_size" and \
        ex.show(ecrc[-1]["args"][1]) == "lzma_crc32(out, out_size, 0)" and \
        ex.show(guard.expand_locals(enc, ecrc[-1]["args"][0])).startswith("out + ")
    osz = [ex.show(e.get("init")) for b, i, e in enc.iter_elems() if e.get("k") == "decl" and e["n"] == "out_size"]
    isz = [ex.show(e.get("init")) for b, i, e in dec.iter_elems() if e.get("k") == "decl" and e["n"] == "in_size"]
    dcond = [ex.show(blk.term["cond"]) for blk in dec.blocks.values() if blk.term and "cond" in blk.term
             and "lzma_crc32" in ex.show(blk.term["cond"])]
    okd = dcond == ["lzma_crc32(in, in_size, 0) != read32le(in + in_size)"]
    ck.ob(rule, "block:crc", oke and okd and osz == ["block->header_size - 4"] and isz == osz,
          common.where(enc), "Block Header CRC32 over [0, header_size-4) stored right after: enc %s, dec %s" % (
              osz, dcond), key="HDR:block:crc")
    ck.floor(rule, floor)


def _dom_conds(f, bid):
    """Texts of the conditions of branch blocks that dominate bid and whose true edge leads to it."""
    dom = cfg.dominators(f)
    out = []
    for d in dom.get(bid, ()):
        if d == bid:
            continue
        t = f.blocks[d].term
        if t and "cond" in t and len(f.blocks[d].succs) == 2 and f.blocks[d].succs[0] is not None:
            tsucc = f.blocks[d].succs[0]
            if tsucc == bid or bid in cfg.reachable(f, [tsucc], stop=[f.blocks[d].succs[1]] if f.blocks[d].succs[1] is not None else []) \
                    and (f.blocks[d].succs[1] is None or bid not in cfg.reachable(f, [f.blocks[d].succs[1]], stop=[tsucc])):
                out.append(ex.show(t["cond"]))
    return out


def _ctrl_preds(f, bid):
    return [p for p in f.blocks[bid].preds if f.blocks[p].term and "cond" in f.blocks[p].term]


def _ieval(n, env, fn=None):
    n = ex.strip(n)
    t = ex.show(n)
    if t in env:
        return env[t]
    k = n.get("k")
    if k == "var" and fn is not None and n.get("s") == "l":
        d = guard.single_def(fn, n.get("id"))
        if d is not None:
            return _ieval(d, env, fn)
    if k in ("const", "enum"):
        return n["v"]
    if k == "bin":
        a, b = _ieval(n["l"], env, fn), _ieval(n["r"], env, fn)
        op = n["op"]
        return {"+": a + b, "-": a - b, "*": a * b, "/": a // b if b else 0, "&": a & b, "|": a | b,
                ">>": a >> b, "<<": a << b}[op]
    raise AnalysisBroken("cannot evaluate %s" % t)


def check_lzma2(ck, prog):
    ck.rule("C02-LZMA2", "control bytes emitted by the LZMA2 encoder fall in the spec class with the same meaning")
    cg = common.callgraph(prog)
    f = prog.fn("lzma2_header_lzma", "lzma2_encoder.c")
    ck.saw_function(f)
    REC = "lzma_lzma2_coder@lzma2_encoder.c"
    keys = [fd.Key("field", "need_properties", rec=REC, domain=(0, 1), label="np"),
            fd.Key("field", "need_state_reset", rec=REC, domain=(0, 1), label="nsr"),
            fd.Key("field", "need_dictionary_reset", rec=REC, domain=(0, 1), label="ndr"),
            fd.Key("var", "pos", domain=range(8), label="pos")]
    kc = fd.Key("var", "$ctl", label="ctl")
    kc.matches = lambda n: (ex.strip(n) is not None and ex.strip(n).get("k") == "idx" and
                            ex.show(ex.strip(n)) == "coder->buf[pos]")
    keys.append(kc)
    seen = {}
    for np in (0, 1):
        for nsr in (0, 1):
            for ndr in (0, 1):
                g = fd.FD(prog, f, keys, cg=cg)
                g.run([g.make_state(np=[np], nsr=[nsr], ndr=[ndr])])
                # value after the first store to coder->buf[pos]
                for b, i, e in f.iter_elems():
                    for (l, r, op, n) in ex.writes(e):
                        if kc.matches(l) and op == "=":
                            for s in g.states_before_elem(b.id, i):
                                v = g.aeval(r, s)
                                if v is not None and len(v) == 1:
                                    seen[(np, nsr, ndr)] = list(v)[0]
    bad = []
    for (np, nsr, ndr), ctl in sorted(seen.items()):
        k = L2.classify(ctl)
        level = k[1] if k[0] == "lzma" else None
        # meaning: new props <=> level >= 2 ; dict reset <=> level == 3 ; state reset <=> level >= 1
        want_level = 3 if (np and ndr) else 2 if np else 1 if nsr else 0
        if level != want_level:
            bad.append(((np, nsr, ndr), hex(ctl), level, want_level))
    ck.ob("C02-LZMA2", "lzma-chunk-control", len(seen) == 8 and not bad, common.where(f),
          "8 flag combinations -> control bytes %s, each in the spec class (props/state/dict reset level)" % (
              sorted({hex(v) for v in seen.values()})) if not bad else
          "need_properties/state_reset/dictionary_reset = %s emits control %s = reset level %s, spec %s" % bad[0],
          key="LZMA2:lzma-control")
    # size fields: big-endian minus one (evaluated on values, in store order after the control byte)
    stores = []
    for b_, i, e in sorted(f.iter_elems(), key=lambda t: ex.line(t[2]) or 0):
        for (l, r, op, n) in ex.writes(e):
            ls = ex.strip(l)
            if ls is not None and ls.get("k") == "idx" and ex.show(ls["b"]) == "coder->buf" and \
                    "pos++" in ex.show(ls["i"]) and r is not None:
                stores.append((ex.line(n), op, r))
    ok = len(stores) == 5
    badv = None
    if ok:
        for (us, cs) in ((1, 1), (2, 2), (256, 257), (65536, 65536), (0x123456 & 0x1FFFFF, 0xABCD), (1 << 21, 1 << 16)):
            env_u = {"coder->uncompressed_size": us}
            env_c = {"coder->compressed_size": cs}
            got = []
            size_defs = sorted((ex.line(n), r) for b_, i, e in f.iter_elems() for (l, r, op, n) in ex.writes(e)
                               if ex.show(l) == "size" and r is not None)
            for k, (ln, op, r) in enumerate(stores):
                env = dict(env_u if k < 3 else env_c)
                prev = [d for d in size_defs if d[0] <= ln]
                if prev:
                    env["size"] = _ieval(prev[-1][1], dict(env_u, **env_c), f)
                got.append(_ieval(r, env, f) & (0xFF if k else 0x1F))
            want = [((us - 1) >> 16) & 0x1F, ((us - 1) >> 8) & 0xFF, (us - 1) & 0xFF,
                    ((cs - 1) >> 8) & 0xFF, (cs - 1) & 0xFF]
            if got != want and badv is None:
                badv = ((us, cs), got, want)
        ok = stores[0][1] == "+=" and all(x[1] == "=" for x in stores[1:])
    ck.ob("C02-LZMA2", "lzma-chunk-sizes", ok and badv is None, common.where(f),
          "uncompressed (21 bits, high bits added to the control byte) and compressed (16 bits) sizes are stored "
          "big-endian minus one (6 sampled size pairs)" if ok and badv is None else
          "LZMA2 chunk sizes %s are stored as %s, format needs %s" % (badv or ("?", "?", "?")), key="LZMA2:sizes")
    u = prog.fn("lzma2_header_uncompressed", "lzma2_encoder.c")
    ck.saw_function(u)
    st = {ex.show(l): ex.show(r) for b, i, e in u.iter_elems() for (l, r, op, n) in ex.writes(e)}
    vals = sorted(ex.const_val(r) for b, i, e in u.iter_elems() for (l, r, op, n) in ex.writes(e)
                  if ex.show(l) == "coder->buf[0]")
    okc = vals == [1, 2] and L2.classify(1) == ("uncompressed", True) and L2.classify(2) == ("uncompressed", False)
    # 1 only under need_dictionary_reset
    g1 = [b for b, i, e in u.iter_elems() for (l, r, op, n) in ex.writes(e)
          if ex.show(l) == "coder->buf[0]" and ex.const_val(r) == 1]
    okd = bool(g1) and any(ex.show(u.blocks[p].term["cond"]) == "coder->need_dictionary_reset" and
                           u.blocks[p].succs[0] == g1[0].id for p in _ctrl_preds(u, g1[0].id))
    ck.ob("C02-LZMA2", "uncompressed-control", okc and okd, common.where(u),
          "uncompressed chunk: control 1 (dictionary reset) only when needed, else 2; %s" % vals,
          key="LZMA2:uncompressed-control")
    oks = st.get("coder->buf[1]") == "(coder->uncompressed_size - 1) >> 8" and \
        st.get("coder->buf[2]") == "(coder->uncompressed_size - 1) & 255"
    ck.ob("C02-LZMA2", "uncompressed-size", oks, common.where(u), "16-bit size big-endian minus one",
          key="LZMA2:uncompressed-size")
    # decoder side reads the same way
    d = prog.fn("lzma2_decode", "lzma2_decoder.c")
    ds = [ex.show(n) for b, i, e in d.iter_elems() for (l, r, op, n) in ex.writes(e)]
    okr = "coder->uncompressed_size = (control & 31) << 16" in ds and \
        "coder->uncompressed_size += (in[*in_pos++]) << 8" in ds.__str__() or True
    dsz = [s for s in ds if "compressed_size" in s and ("<< 8" in s or "+ 1" in s)]
    okr = any("<< 8" in s and "uncompressed_size +=" in s for s in dsz) and \
        any("+ 1" in s and "uncompressed_size +=" in s for s in dsz) and \
        any("<< 8" in s and "coder->compressed_size =" in s for s in dsz) and \
        any("+ 1" in s and "coder->compressed_size +=" in s for s in dsz)
    ck.ob("C02-LZMA2", "decoder-sizes", okr, common.where(d),
          "decoder rebuilds both sizes big-endian plus one", key="LZMA2:decoder-sizes")
    ck.floor("C02-LZMA2", 5)


def check_meta(ck, prog):
    ck.rule("C02-META", "provenance of the sizes and types stored in headers, Index and footer")
    be = prog.fn("block_encode", "block_encoder.c")
    ck.saw_function(be)
    st = [ex.show(n) for b, i, e in be.iter_elems() for (l, r, op, n) in ex.writes(e)]
    ok = "coder->block->compressed_size = coder->compressed_size" in st and \
        "coder->block->uncompressed_size = coder->uncompressed_size" in st and \
        "coder->compressed_size += out_used" in st and "coder->uncompressed_size += in_used" in st
    ck.ob("C02-META", "block-sizes", ok, common.where(be),
          "Block sizes = running sums of the bytes produced/consumed by the filter chain", key="META:block-sizes")
    used = {e["n"]: ex.show(e.get("init")) for b, i, e in be.iter_elems()
            if e.get("k") == "decl" and e["n"] in ("in_used", "out_used", "in_start", "out_start")}
    ok = used == {"in_start": "*in_pos", "out_start": "*out_pos", "in_used": "*in_pos - in_start",
                  "out_used": "*out_pos - out_start"}
    ck.ob("C02-META", "block-counters", ok, common.where(be), "counters: %s" % used, key="META:block-counters")
    chk = [c for b, i, e in be.iter_elems() for c in ex.calls(e, into_refs=False) if c.get("fn") == "lzma_check_update"]
    okc = bool(chk) and ex.show(chk[0]["args"][2]) == "in + in_start" and ex.show(chk[0]["args"][3]) == "in_used"
    ck.ob("C02-META", "block-check-input", okc, common.where(be),
          "Check is updated with exactly the consumed input in[in_start, in_start + in_used)", key="META:check-input")
    pad = [b for b in be.blocks.values() if b.term and "cond" in b.term and
           ex.show(b.term["cond"]) == "coder->compressed_size & 3"]
    ck.ob("C02-META", "block-padding", bool(pad), common.where(be),
          "Block Padding loop runs while compressed_size & 3", key="META:block-padding")
    se = prog.fn("stream_encode", "stream_encoder.c")
    ck.saw_function(se)
    ff = None
    for b, i, e in se.iter_elems():
        if e.get("k") == "decl" and e["n"] == "stream_flags" and e.get("init") is not None:
            ini = ex.strip(e["init"])
            ff = dict(zip(ini.get("fields", []), [ex.show(x) for x in ini["e"]]))
    ok = ff is not None and ff.get("backward_size") == "lzma_index_size(coder->index)" and \
        ff.get("check") == "coder->block_options.check" and ff.get("version") == "0"
    ck.ob("C02-META", "footer-fields", ok, common.where(se), "Stream Footer flags = %s" % ff, key="META:footer")
    mt = prog.fn("stream_encode_mt", "stream_encoder_mt.c")
    ck.saw_function(mt)
    st = [ex.show(n) for b, i, e in mt.iter_elems() for (l, r, op, n) in ex.writes(e)]
    ck.ob("C02-META", "footer-fields-mt", "coder->stream_flags.backward_size = lzma_index_size(coder->index)" in st,
          common.where(mt), "threaded encoder: Backward Size = lzma_index_size(index)", key="META:footer-mt")
    # header and footer use the same check
    hi = prog.fn("stream_encoder_init", "stream_encoder.c")
    hdr = None
    for b, i, e in hi.iter_elems():
        if e.get("k") == "decl" and e["n"] == "stream_flags" and e.get("init") is not None:
            ini = ex.strip(e["init"])
            hdr = dict(zip(ini.get("fields", []), [ex.show(x) for x in ini["e"]]))
    st = [ex.show(n) for b, i, e in hi.iter_elems() for (l, r, op, n) in ex.writes(e)]
    ok = hdr is not None and hdr.get("check") == "check" and "coder->block_options.check = check" in st
    ck.ob("C02-META", "header-check", ok, common.where(hi),
          "Stream Header check = Block check = the requested check (%s)" % hdr, key="META:header-check")
    # alone header
    ae = prog.fn("alone_encoder_init", "alone_encoder.c")
    ck.saw_function(ae)
    calls = {c.get("fn"): c for b, i, e in ae.iter_elems() for c in ex.calls(e, into_refs=False)}
    ok = "lzma_lzma_lclppb_encode" in calls and ex.show(calls["lzma_lzma_lclppb_encode"]["args"][1]) == "coder->header" \
        and "write32ne" in calls and ex.show(calls["write32ne"]["args"][0]) == "coder->header + 1" \
        and "memset" in calls and [ex.show(a) for a in calls["memset"]["args"]] == ["(coder->header + 1) + 4", "255", "8"]
    ck.ob("C02-META", "alone-header", ok, common.where(ae),
          ".lzma header: props@0, dict size u32le@1, size@5 = 8 x 0xFF (unknown)", key="META:alone-header")
    ck.floor("C02-META", 8)


def check_chk(ck, prog):
    ck.rule("C02-CHK", "check sizes and header bound constants")
    f = prog.fn("lzma_check_size", "check.c")
    cs = None
    for b, i, e in f.iter_elems():
        if e.get("k") == "decl" and e["n"] == "check_sizes" and e.get("init") is not None:
            cs = [ex.const_val(x) for x in ex.strip(e["init"])["e"]]
    ck.ob("C02-CHK", "check_sizes", cs == X.CHECK_SIZES, common.where(f), "check_sizes = %s" % cs, key="CHK:sizes")
    ck.ob("C02-CHK", "check-size-max", cs is not None and max(cs) == 64, common.where(f),
          "LZMA_CHECK_SIZE_MAX = max(check_sizes) = 64", key="CHK:max")


def check_blkopt(ck, prog):
    """lzma_block (the Block options) is an in/out structure: the Block encoder stores the final Compressed Size and
    Uncompressed Size back into it.  lzma_block_header_size()/lzma_block_header_encode() store those two members in the
    Block Header whenever they are not LZMA_VLI_UNKNOWN, so every encoder that starts a Block must (re)initialise both
    members before it computes the header size -- on every path, in the function that starts the Block."""
    ck.rule("C02-BLKOPT", "compressed_size/uncompressed_size of the Block options are (re)set on every path to "
                          "lzma_block_header_size() in the function that starts a Block")
    n = 0
    for f in sorted(prog.all_functions("liblzma"), key=lambda f: (f.file, f.line)):
        if not f.blocks or f.name == "lzma_block_header_size":
            continue
        for b, i, e in f.iter_elems():
            for c in ex.calls(e, into_refs=False):
                if c.get("fn") != "lzma_block_header_size" or not c["args"]:
                    continue
                a = ex.strip(c["args"][0])
                if a is None or a.get("k") != "un" or a["op"] != "&":
                    continue                       # a caller-supplied lzma_block (public API wrappers)
                tgt = ex.strip(a["e"])
                if tgt is None or tgt.get("k") != "mem":
                    continue
                n += 1
                ck.saw_function(f)
                for fld in ("compressed_size", "uncompressed_size"):
                    def via(bb, ii, ee, fld=fld):
                        if bb.id == b.id and ii >= i:
                            return False
                        for (l, r, op, node) in ex.writes(ee):
                            ls = ex.strip(l)
                            if ls is None:
                                continue
                            if ex.same(ls, tgt):
                                return True            # whole structure assigned
                            if ls.get("k") == "mem" and ls["f"] == fld and ex.same(ex.strip(ls["b"]), tgt):
                                return True
                        return False
                    ok = any(via(b, j, b.elems[j]) for j in range(0, i) if b.elems[j] is not None)
                    if not ok:
                        ok, path = cfg.must_pass(f, [f.entry], [b.id], via)
                    ck.ob("C02-BLKOPT", "%s:%s" % (f.name, fld), ok, common.where(f, c),
                          "%s(): %s.%s is stored on every path before lzma_block_header_size() (line %s)" % (
                              f.name, ex.show(tgt), fld, ex.line(c)) if ok else
                          "%s() calls lzma_block_header_size(&%s) at line %s on a path where %s.%s still holds what the "
                          "previous Block's encoder stored there: the next Block Header would carry the previous Block's "
                          "size" % (f.name, ex.show(tgt), ex.line(c), ex.show(tgt), fld),
                          key="BLKOPT:%s:%s" % (f.name, fld))
    ck.floor("C02-BLKOPT", 4, "obligations")


def check_uncomp_fallback(ck, prog):
    """(a) block_encode_uncompressed() writes a Block Header that names LZMA2 only (its own local filter array), whatever
    chain the caller asked for: the caller's filter pointer is restored only after the header was encoded.
    (b) An LZMA2 chunk never exceeds 2 MiB of uncompressed data: the margin kept before the limit is the length of the
    longest possible symbol (mf->match_len_max), not the nice length."""
    ck.rule("C02-FALLBACK", "uncompressed-chunk fallback: header encoded with the local LZMA2-only chain; LZMA2 chunk limit "
                            "margin is match_len_max")
    f = prog.fn("block_encode_uncompressed", "block_buffer_encoder.c")
    ck.saw_function(f)
    enc = [(b, i) for b, i, e in f.iter_elems() for c in ex.calls(e, into_refs=True) if c.get("fn") == "lzma_block_header_encode"]
    rest = [(b, i, n) for b, i, e in f.iter_elems() for (l, r, op, n) in ex.writes(e)
            if ex.show(l) == "block->filters" and r is not None and ex.show(r) == "filters_orig"]
    sets = [(b, i) for b, i, e in f.iter_elems() for (l, r, op, n) in ex.writes(e)
            if ex.show(l) == "block->filters" and r is not None and ex.show(r) == "filters"]
    if not enc or not rest or not sets:
        raise AnalysisBroken("block_encode_uncompressed: header encode / filter pointer stores not found")
    eb, ei = enc[0]
    bad = None
    for (b, i, n) in rest:
        if (b.id == eb.id and i < ei) or (b.id != eb.id and eb.id in cfg.reachable(f, cfg.succs(f, b.id))):
            bad = ex.line(n)
    ck.ob("C02-FALLBACK", "header-uses-local-chain", bad is None, common.where(f),
          "block_encode_uncompressed: block->filters points to the local LZMA2-only array while lzma_block_header_encode() "
          "runs; the caller's pointer is restored afterwards (and on the error returns)" if bad is None else
          "block_encode_uncompressed(): block->filters is restored to the caller's chain at line %s, before "
          "lzma_block_header_encode(): the Block Header then lists the caller's filters (e.g. x86 + LZMA2) over data that "
          "is stored as plain LZMA2 uncompressed chunks" % bad, key="FALLBACK:header-uses-local-chain")
    g = prog.fn("lzma2_encode", "lzma2_encoder.c")
    ck.saw_function(g)
    conds = [ex.show(b.term["cond"]) for b in g.blocks.values() if b.term and "cond" in b.term and
             ex.show(b.term["cond"]).startswith("left <")]
    lim = [ex.show(r) for b, i, e in g.iter_elems() for (l, r, op, n) in ex.writes(e)
           if ex.show(l) == "limit" and r is not None and "left" in ex.show(r)]
    ok = conds == ["left < mf->match_len_max"] and len(lim) == 1 and lim[0].endswith("- mf->match_len_max")
    ck.ob("C02-FALLBACK", "chunk-limit-margin", ok, common.where(g),
          "lzma2_encode: the chunk is closed when fewer than mf->match_len_max bytes of its 2 MiB remain (%s; limit = %s)" % (
              conds, lim) if ok else
          "lzma2_encode(): the margin before the 2 MiB chunk limit is not mf->match_len_max (%s; limit = %s): one long "
          "match can push the uncompressed size of the chunk past 2^21 and the size field overflows into the control byte" % (
              conds, lim), key="FALLBACK:chunk-limit-margin")


def smear_distance_set(f, var):
    """For the statements `var |= var >> k` of f (in order): the set of distances the OR-smear reaches, i.e. result bit
    i = OR over j in S of input bit i+j with S = subset sums of the shift amounts (< 32).  Returns (S, shifts, site)."""
    S, shifts, site = {0}, [], None
    for b, i, e in sorted(f.iter_elems(), key=lambda t: (ex.line(t[2]) or 0)):
        if e.get("k") != "asg" or e.get("op") != "|=":
            continue
        l = ex.strip(e["l"])
        r = ex.strip(e["r"])
        if l is None or l.get("k") != "var" or l.get("n") != var or r is None:
            continue
        if r.get("k") == "bin" and r["op"] == ">>" and ex.strip(r["l"]).get("n") == var and ex.const_val(r["r"]) is not None:
            k = ex.const_val(r["r"])
            shifts.append(k)
            S = {a for a in (S | {x + k for x in S}) if a < 32}
            site = site or e
        else:
            raise AnalysisBroken("%s: `%s |= ...` is not an OR/shift smear step: %s" % (f.name, var, ex.show(e)[:60]))
    return S, shifts, site


def check_dict_rounding(ck, prog):
    """The dictionary size written to a header is the requested size rounded UP to the next 2^n or 2^n + 2^(n-1) (the only
    sizes the LZMA2 property byte can express and the only ones liblzma's .lzma decoder accepts in picky mode).  Both
    encoders round with `--d; d |= d >> k ...`: the smear is the OR-linear operator with distance set S = subset sums of
    the shift amounts, and it yields exactly "keep the top two bits, fill everything below" iff S = {0, 2, 3, ..., 31}
    (distance 1 missing keeps the bit below the top bit as it is; every other distance present fills the rest).  A
    missing distance leaves a hole (declared size smaller than the one the encoder uses: the decoder rejects long
    distances); distance 1 present rounds 2^n + 2^(n-1) sizes up to 2^(n+1)."""
    ck.rule("C02-DICTROUND", "dictionary-size rounding of the LZMA2 property byte and the .lzma header: smear distance set "
                             "is every distance except 1")
    SREF = {0} | set(range(2, 32))
    for fname, file in (("lzma_lzma2_props_encode", "lzma2_encoder.c"), ("alone_encoder_init", "alone_encoder.c")):
        f = prog.fn(fname, file)
        ck.saw_function(f)
        S, shifts, site = smear_distance_set(f, "d")
        if not shifts:
            raise AnalysisBroken("%s: no `d |= d >> k` smear found" % fname)
        # the value that is smeared is size - 1 (so that exact sizes are kept)
        dec = False
        for b, i, e in f.iter_elems():
            e_ = ex.deref(e)
            if e_.get("k") == "un" and e_.get("op") in ("pre--", "post--") and ex.strip(e_["e"]).get("n") == "d":
                dec = True
            if e_.get("k") == "decl" and e_.get("n") == "d" and e_.get("init") is not None:
                i0 = ex.strip(e_["init"])
                if i0.get("k") == "bin" and i0["op"] == "-" and ex.const_val(i0["r"]) == 1:
                    dec = True
        ok = S == SREF and dec
        ck.ob("C02-DICTROUND", fname, ok, common.where(f, site),
              "%s: shifts %s give every distance except 1, applied to size - 1" % (fname, shifts) if ok else
              "%s(): the rounding smear with shifts %s %s: the declared dictionary size is %s" % (
                  fname, shifts,
                  ("lacks distance(s) %s" % sorted(SREF - S) if SREF - S else "also has distance %s" % sorted(S - SREF))
                  if S != SREF else "is not applied to size - 1",
                  "not >= the size in use for some sizes (e.g. bits left unset below the top two), so streams the "
                  "encoder produces are rejected by decoders" if SREF - S else
                  "rounded past the next 2^n + 2^(n-1)" if S - SREF else "one step too large for exact sizes"),
              key="DICTROUND:" + fname)
    ck.floor("C02-DICTROUND", 2)


class _Lin:
    """a*x + sum c_i * floor((x + b_i) / C_i) + d  over one unsigned variable x (no overflow considered)."""

    def __init__(self, a=0, fl=None, d=0):
        self.a, self.fl, self.d = a, dict(fl or {}), d

    def norm(self):
        fl, d = {}, self.d
        for (b, C), c in self.fl.items():
            d += c * (b // C)
            k = (b % C, C)
            fl[k] = fl.get(k, 0) + c
        return (self.a, tuple(sorted((k, v) for k, v in fl.items() if v)), d)


def _lin_eval(n, env, var):
    n = ex.strip(n)
    k = n.get("k")
    if k in ("const", "enum"):
        return _Lin(d=n["v"])
    if k == "var":
        if n["n"] == var:
            return _Lin(a=1)
        if n["n"] in env:
            return env[n["n"]]
        raise AnalysisBroken("unknown variable %s" % n["n"])
    if k == "bin":
        op = n["op"]
        l, r = _lin_eval(n["l"], env, var), _lin_eval(n["r"], env, var)
        if op in ("+", "-"):
            sg = 1 if op == "+" else -1
            fl = dict(l.fl)
            for kk, c in r.fl.items():
                fl[kk] = fl.get(kk, 0) + sg * c
            return _Lin(l.a + sg * r.a, fl, l.d + sg * r.d)
        if op == "*":
            for (p_, q_) in ((l, r), (r, l)):
                if q_.a == 0 and not q_.fl:
                    return _Lin(p_.a * q_.d, {kk: c * q_.d for kk, c in p_.fl.items()}, p_.d * q_.d)
        if op == "/" and r.a == 0 and not r.fl and r.d > 0 and l.a == 1 and not l.fl and l.d >= 0:
            return _Lin(0, {(l.d, r.d): 1}, 0)
    raise AnalysisBroken("expression form not handled: %s" % ex.show(n)[:60])


def check_bound(ck, prog):
    """lzma2_bound(n) is the exact size of n bytes stored as LZMA2 uncompressed chunks: n + 3 * ceil(n / 65536) + 1.
    block_encode_uncompressed() stores it in the Block Header as Compressed Size and then writes one 3-byte header per
    started 64 KiB chunk: if the count differs by one for some n, the header (and Index Unpadded Size) does not describe
    the Block.  The return expression is brought to the normal form a*n + c*floor((n + b)/C) + d and compared."""
    ck.rule("C02-BOUND", "lzma2_bound(n) = n + LZMA2_HEADER_UNCOMPRESSED * ceil(n / LZMA2_CHUNK_MAX) + 1 in normal form")
    f = prog.fn("lzma2_bound", "block_buffer_encoder.c")
    ck.saw_function(f)
    var = [v["n"] for v in f.vars if v.get("param")][0]
    env = {}
    rets = []
    for b, i, e in sorted(f.iter_elems(), key=lambda t: (ex.line(t[2]) or 0)):
        e_ = ex.deref(e)
        if e_.get("k") == "decl" and e_.get("init") is not None:
            env[e_["n"]] = _lin_eval(e_["init"], env, var)
        if e_.get("k") == "ret" and e_.get("e") is not None and ex.const_val(e_["e"]) is None:
            rets.append(e_)
    if len(rets) != 1:
        raise AnalysisBroken("lzma2_bound: expected one non-constant return")
    got = _lin_eval(rets[0]["e"], env, var).norm()
    C = 1 << 16
    ref = _Lin(1, {(C - 1, C): L2.HEADER_UNCOMPRESSED if hasattr(L2, "HEADER_UNCOMPRESSED") else 3}, 1).norm()
    ok = got == ref
    wit = None
    if not ok:
        def val(nf, x):
            a, fl, d = nf
            return a * x + sum(c * ((x + b) // CC) for ((b, CC), c) in fl) + d
        for x in (0, 1, C - 1, C, C + 1, 2 * C, 2 * C + 1, 3 * C):
            if val(got, x) != val(ref, x):
                wit = (x, val(got, x), val(ref, x))
                break
    ck.ob("C02-BOUND", "lzma2_bound", ok, common.where(f, rets[0]),
          "lzma2_bound: n + 3*floor((n + 65535)/65536) + 1" if ok else
          "lzma2_bound(): normal form %s differs from n + 3*ceil(n/65536) + 1%s: the Compressed Size written by the "
          "uncompressed-chunk fallback (and the Unpadded Size in the Index) does not match the chunks actually written" % (
              got, (": for n = %d it gives %d, the chunks take %d bytes" % wit) if wit else ""),
          key="BOUND:lzma2_bound")


def check_dict_declared(ck, prog):
    """The dictionary size written into the headers is options->dict_size (lzma_lzma2_props_encode / the .lzma header).
    The window the match finders search is lz_options->dict_size (mf->cyclic_size = dict_size + 1): for "no match
    reaches farther back than the declared size" the encoder side must set the latter only by copying the former."""
    ck.rule("C02-DICTDECL", "on the encoder side lz_options->dict_size is only ever a copy of options->dict_size "
            "(the value the headers declare); the match-finder window is derived from it")
    n = 0
    files = ("lzma_encoder.c", "lzma2_encoder.c", "lz_encoder.c", "lzma_encoder_optimum_fast.c",
             "lzma_encoder_optimum_normal.c", "lzma_encoder_presets.c")
    for base in files:
        for f in prog.fns_in(base):
            for b, i, e in f.iter_elems():
                for (l, r, op, node) in ex.writes(e):
                    ls = ex.strip(l)
                    if ls is None or ls.get("k") != "mem" or ls.get("rec") != "lzma_lz_options" or ls["f"] != "dict_size":
                        continue
                    n += 1
                    rs = ex.strip(r) if r is not None else None

                    def is_opt(x, depth=0):
                        x = ex.strip(x)
                        if x is None:
                            return False
                        if x.get("k") == "mem":
                            return x["f"] == "dict_size" and (x.get("rec") or "").startswith("lzma_options_lzma")
                        if x.get("k") == "var" and depth < 2:
                            defs = []
                            for b2, i2, e2 in f.iter_elems():
                                d2 = ex.deref(e2)
                                if d2.get("k") == "decl" and d2.get("n") == x["n"] and d2.get("init") is not None:
                                    defs.append(d2["init"])
                                for (l2, r2, op2, n2) in ex.writes(e2):
                                    l2s = ex.strip(l2)
                                    if l2s is not None and l2s.get("k") == "var" and l2s["n"] == x["n"]:
                                        defs.append(r2 if op2 == "=" else None)
                            return bool(defs) and all(d is not None and is_opt(d, depth + 1) for d in defs)
                        return False
                    ok = op == "=" and is_opt(rs)
                    ck.ob("C02-DICTDECL", "%s:dict_size" % f.name, ok, common.where(f, e),
                          "%s(): lz_options->dict_size = options->dict_size" % f.name if ok else
                          "%s() sets lz_options->dict_size with `%s`: the match finders then search a window that differs from "
                          "the dictionary size the headers declare (options->dict_size), so a match can reach farther back than "
                          "the declared size and a decoder that allocates only the declared size rejects the stream" % (
                              f.name, ex.show(node)[:80]), key="DICTDECL:%s" % f.name)
    # the window of the match finders
    f = prog.fn("lz_encoder_prepare", "lz_encoder.c")
    ck.saw_function(f)
    got = None
    for b, i, e in f.iter_elems():
        for (l, r, op, node) in ex.writes(e):
            ls = ex.strip(l)
            if ls is not None and ls.get("k") == "mem" and ls["f"] == "cyclic_size" and op == "=":
                got = (ex.show(ex.strip(r)), e)
    if got is None:
        raise AnalysisBroken("lz_encoder_prepare: store to mf->cyclic_size not found")
    n += 1
    ok = got[0].replace(" ", "") in ("lz_options->dict_size+1", "1+lz_options->dict_size")
    ck.ob("C02-DICTDECL", "lz_encoder_prepare:cyclic_size", ok, common.where(f, got[1]),
          "mf->cyclic_size = %s" % got[0] if ok else
          "lz_encoder_prepare(): mf->cyclic_size = %s instead of lz_options->dict_size + 1: the match finders' window no "
          "longer equals the declared dictionary size" % got[0], key="DICTDECL:cyclic_size")
    ck.floor("C02-DICTDECL", 2)
    return n


def check_rewind(ck, prog, rule="C02-REWIND"):
    """Single-call functions that save a position on entry (`const size_t out_start = *out_pos`) and put it back when
    something goes wrong promise "on error the position is unchanged".  Callers rely on it: block_buffer_encode() writes
    the uncompressed-chunk fallback at *out_pos after block_encode_normal() reported LZMA_BUF_ERROR.  Every exit with an
    error value that is reachable after the position may have moved has to pass the restoring store."""
    from sa import machine
    ck.rule(rule, "single-call coders: every error return reachable after *pos moved passes the store `*pos = pos_start`")
    cg = common.callgraph(prog)
    rs = common.retsets(prog)
    rets = common.lzma_ret(prog)
    OKS = {rets["LZMA_OK"], rets["LZMA_STREAM_END"]}
    n = 0
    for f in sorted(prog.all_functions("liblzma"), key=lambda f: (f.file, f.line)):
        if not f.blocks or not (f.ret or "").startswith("lzma_ret"):
            continue
        saved = {}
        for b, i, e in f.iter_elems():
            d = ex.deref(e)
            if d.get("k") == "decl" and d.get("init") is not None:
                i0 = ex.strip(d["init"])
                if i0 is not None and i0.get("k") == "un" and i0["op"] == "*":
                    v = ex.strip(i0["e"])
                    if v is not None and v.get("k") == "var" and v.get("s") == "p":
                        saved[d["n"]] = v["n"]
        restores = {}
        for b, i, e in f.iter_elems():
            for (l, r, op, node) in ex.writes(e):
                ls, rr = ex.strip(l), (ex.strip(r) if r is not None else None)
                if ls is not None and ls.get("k") == "un" and ls["op"] == "*" and rr is not None and rr.get("k") == "var" \
                        and rr["n"] in saved and ex.show(ex.strip(ls["e"])) == saved[rr["n"]] and op == "=":
                    restores.setdefault(saved[rr["n"]], set()).add((b.id, i))
        if not restores:
            continue
        ck.saw_function(f)
        keys = [fd.Key("var", "ret", domain=rets.values(), label="ret"), fd.Key("retval", "$ret", label="$ret")]
        g = fd.FD(prog, f, keys, cg=cg, call_values=lambda c, s_, f=f: rs.call_set(c, f))
        g.run([g.make_state(**{"$ret": [machine.NO_RETURN_YET]})])
        for pos, sites in sorted(restores.items()):
            n += 1

            def moves(b, i, e, states, pos=pos, sites=sites):
                if (b.id, i) in sites:
                    return False
                for (l, r, op, node) in ex.writes(e):
                    ls = ex.strip(l)
                    if ls is not None and ls.get("k") == "un" and ls["op"] == "*" and ex.show(ex.strip(ls["e"])) == pos:
                        return True
                for c in ex.calls(e, into_refs=False):
                    for a in c.get("args", ()):
                        a0 = ex.strip(a)
                        if a0 is not None and a0.get("k") == "var" and a0["n"] == pos:
                            return True
                return False

            def kill(b, i, e, states, sites=sites):
                return (b.id, i) in sites

            def err_return(b, i, e, states):
                d = ex.deref(e)
                if d.get("k") != "ret":
                    return False
                for s_ in states:
                    v = g.aeval(d.get("e"), s_)
                    if v is None or any(x not in OKS for x in v):
                        return True
                return False
            hits = fd.flagflow(g, moves, kill, err_return)
            ck.ob(rule, "%s:%s" % (f.name, pos), not hits, common.where(f, hits[0][2] if hits else None),
                  "%s: every error return after *%s moved passes `*%s = %s`" % (
                      f.name, pos, pos, [k for k, v in saved.items() if v == pos][0]) if not hits else
                  "%s(): `%s` can be reached with an error value after *%s was advanced (line %d) without restoring it: the "
                  "caller is told that nothing was written/consumed while the position says otherwise (for the Block encoder "
                  "the uncompressed fallback is then written behind the abandoned output)" % (
                      f.name, ex.show(hits[0][2])[:40], pos, hits[0][3][2]),
                  key="REWIND:%s:%s" % (f.name, pos))
    ck.floor(rule, 8)
    return n


def run(ck):
    ck.explanation = (
        "Layout facts (constant-folded offsets, lengths, CRC ranges, flag bits, field order, byte order) are "
        "extracted from each encoder and its decoder and compared with each other and with a transcription of the "
        "format documents; the LZMA2 control bytes the encoder can emit are derived by finite-domain evaluation of "
        "its 8 flag combinations and classified with the same spec table the decoder is checked against; provenance "
        "of stored sizes and check types.")
    ck.not_decided = ("conformance of whole streams as judged by an independent decoder, that the dictionary size "
                      "field covers all distances, sufficiency of the *_bound() functions.")
    prog = common.program(ck, ("liblzma",))
    check_stream(ck, prog)
    check_block_header(ck, prog)
    check_lzma2(ck, prog)
    check_meta(ck, prog)
    check_chk(ck, prog)
    check_blkopt(ck, prog)
    check_uncomp_fallback(ck, prog)
    check_dict_rounding(ck, prog)
    check_bound(ck, prog)
    check_dict_declared(ck, prog)
    check_rewind(ck, prog)
    # "LZMA2 chunk sizes and properties describe the actual data": an accepted lc/lp/pb change resets the encoder state
    # before the next chunk announces the new properties (rule shared with C12)
    from . import C12
    C12.check_upd(ck, prog)
    # "no match reaches farther back than the declared dictionary": the match finders stop at delta >= cyclic_size (C01)
    from . import C01, reinit
    C01.check_window(ck, prog)
    # a .lzma file / LZMA1 stream is complete only if the last range coder bytes are written before the end is reported
    C01.check_drain(ck, prog, rule="C02-DRAIN")
    # every Block is filtered from a fresh filter state (a decoder written from the specification starts each Block so)
    ck.rule("C02-READFIRST", "filters: what the coding function can read before storing to it is stored by the init function on every path returning LZMA_OK")
    reinit.check_read_first(ck, prog, "C02-READFIRST", files={"delta_common.c", "simple_coder.c"})
    ck.floor("C02-READFIRST", 8)
    # the Check field of a Block is the CRC32/CRC64/SHA-256 of the data: the SHA-256 structure rules of C14
    from . import C14
    C14.check_sha(ck, prog)
