"""C03 — decoders accept exactly the valid streams.

C03-CTRL  LZMA2 control byte: the decision table derived from lzma2_decode() by exhaustive
          finite-domain evaluation (256 control values x need_properties x need_dictionary_reset)
          equals spec/lzma2.py.
C03-PROPS value tables of pure property decoders (LZMA2 dictionary byte, lc/lp/pb byte) equal
          the spec for every byte value.
C03-OBL   rejection obligations: reserved bits, VLI rules, filter IDs, chain rules, LZMA/LZMA2
          end conditions, LZ decoder chain rules.
C03-EXH   every enumerator of every coder state enum has a case and is reachable from the
          initial state; no case label is unreachable.
"""
from sa import ex, cfg, fd, guard, machine
from sa.compdb import AnalysisBroken
from . import common
from .oblig import MP, Present, evaluate, graph_for
import spec.lzma2 as L2

DATA = ("LZMA_DATA_ERROR",)
OPT = ("LZMA_OPTIONS_ERROR",)
OK = ("LZMA_OK",)
END = ("LZMA_STREAM_END",)

L2F = "lzma2_decoder.c"
L2REC = "lzma_lzma2_coder@lzma2_decoder.c"


def derive_control_table(prog):
    cg = common.callgraph(prog)
    rs = common.retsets(prog)
    f = prog.fn("lzma2_decode", L2F)
    en = prog.enum_with("SEQ_CONTROL", f.file)
    names = {v: k for k, v in en.items()}
    rets = prog.enum("lzma_ret")
    keys = [
        fd.Key("field", "sequence", rec=L2REC, domain=en.values(), label="seq"),
        fd.Key("field", "next_sequence", rec=L2REC, domain=en.values(), label="next"),
        fd.Key("field", "need_properties", rec=L2REC, domain=(0, 1), label="np"),
        fd.Key("field", "need_dictionary_reset", rec=L2REC, domain=(0, 1), label="ndr"),
        fd.Key("field", "uncompressed_size", rec=L2REC, label="usize"),
        fd.Key("var", "control", domain=range(256), label="control"),
        fd.Key("retval", "$ret", label="$ret"),
    ]
    g = fd.FD(prog, f, keys, cg=cg, split=256, call_values=lambda c, s: rs.call_set(c, f))
    inits = []
    for np in (0, 1):
        for ndr in (0, 1):
            inits.append(g.make_state(seq=[en["SEQ_CONTROL"]], np=[np], ndr=[ndr],
                                      **{"$ret": [machine.NO_RETURN_YET]}))
    g.run(inits)
    # the case block of SEQ_CONTROL and the switch block
    swb = None
    for b in f.blocks.values():
        if b.term and b.term["kind"] == "SwitchStmt":
            swb = b
    case_block = None
    for s_ in swb.succs:
        if s_ is not None and (f.blocks[s_].label or {}).get("n") == "SEQ_CONTROL":
            case_block = s_
    if case_block is None:
        raise AnalysisBroken("lzma2_decode: case SEQ_CONTROL not found")
    table = {}
    for node in list(g.nodes):
        if node[0] != case_block:
            continue
        np0 = g.get(node[1], "np")
        ndr0 = g.get(node[1], "ndr")
        if not np0 or not ndr0 or len(np0) != 1 or len(ndr0) != 1:
            continue
        np0, ndr0 = list(np0)[0], list(ndr0)[0]
        # DFS, carrying the calls seen
        st = [(node, frozenset())]
        seen = set()
        while st:
            n, calls = st.pop()
            if (n, calls) in seen:
                continue
            seen.add((n, calls))
            blk = f.blocks[n[0]]
            cs = set(calls)
            for e in blk.elems:
                if e is None:
                    continue
                for c in ex.calls(e, into_refs=False):
                    if c.get("fn"):
                        cs.add(c["fn"])
                    else:
                        fk = ex.field_key(ex.strip(c.get("callee")))
                        if fk:
                            cs.add("slot:" + fk[1])
            cs = frozenset(cs)
            terminal = None
            if n[0] == f.exit:
                terminal = "exit"
            elif n[0] == swb.id and n != node and cs is not None and len(seen) > 1:
                terminal = "switch"
            if terminal:
                cv = g.get(n[1], "control")
                if cv is None or len(cv) != 1:
                    continue
                c = list(cv)[0]
                rv = g.get(n[1], "$ret")
                out = {"calls": cs}
                if terminal == "exit":
                    if rv is None or len(rv) != 1:
                        out["result"] = "?"
                    else:
                        v = list(rv)[0]
                        out["result"] = {rets["LZMA_STREAM_END"]: "end", rets["LZMA_DATA_ERROR"]: "error",
                                         rets["LZMA_OK"]: "ok"}.get(v, "other:%s" % v)
                else:
                    out["result"] = "ok"
                for lab in ("seq", "next", "np", "ndr", "usize"):
                    v = g.get(n[1], lab)
                    out[lab] = (list(v)[0] if v is not None and len(v) == 1 else None)
                out["seq"] = names.get(out["seq"], out["seq"])
                out["next"] = names.get(out["next"], out["next"])
                key = (c, np0, ndr0)
                prev = table.get(key)
                if prev is None:
                    table[key] = out
                elif prev["result"] != out["result"] or any(
                        prev[k] != out[k] for k in ("np", "ndr", "seq")):
                    # two different outcomes for one abstract case: keep both for the report
                    table[key] = dict(prev, conflict=out)
                continue
            for (d, label) in g.succ.get(n, ()):
                st.append((d, cs))
    return f, table


def check_ctrl(ck, prog):
    ck.rule("C03-CTRL", "decision table of the LZMA2 control byte derived from lzma2_decode() "
            "(1024 abstract cases, exhaustive) equals spec/lzma2.py")
    f, table = derive_control_table(prog)
    ck.saw_function(f)
    if len(table) < 1024:
        raise AnalysisBroken("C03-CTRL: derived only %d of 1024 cases" % len(table))
    bad = {}
    classes = {}
    for (c, np0, ndr0), got in sorted(table.items()):
        want = L2.expected(c, bool(np0), bool(ndr0))
        errs = []
        if "conflict" in got:
            errs.append("ambiguous outcome")
        if got["result"] != want["result"]:
            errs.append("result %s, spec %s" % (got["result"], want["result"]))
        elif want["result"] == "ok":
            if bool(got["np"]) != want["need_props_after"]:
                errs.append("need_properties after = %s, spec %s" % (got["np"], want["need_props_after"]))
            if bool(got["ndr"]) != want["need_dict_reset_after"]:
                errs.append("need_dictionary_reset after = %s, spec %s" % (got["ndr"], want["need_dict_reset_after"]))
            if ("dict_reset" in got["calls"]) != want["dict_reset"]:
                errs.append("dict_reset %s, spec %s" % ("dict_reset" in got["calls"], want["dict_reset"]))
            if ("slot:reset" in got["calls"]) != want["state_reset_now"]:
                errs.append("state reset now %s, spec %s" % ("slot:reset" in got["calls"], want["state_reset_now"]))
            if want["lzma"]:
                if got["seq"] != "SEQ_UNCOMPRESSED_1":
                    errs.append("next state %s, spec SEQ_UNCOMPRESSED_1" % got["seq"])
                wn = "SEQ_PROPERTIES" if want["props_follow"] else "SEQ_LZMA"
                if got["next"] != wn:
                    errs.append("state after sizes %s, spec %s" % (got["next"], wn))
                if got["usize"] != want["size_bits"]:
                    errs.append("size bits %s, spec %s" % (got["usize"], want["size_bits"]))
            else:
                if got["seq"] != "SEQ_COMPRESSED_0" or got["next"] != "SEQ_COPY":
                    errs.append("states %s/%s, spec SEQ_COMPRESSED_0/SEQ_COPY" % (got["seq"], got["next"]))
        cls = (L2.classify(c), np0, ndr0)
        classes.setdefault(cls, []).append(c)
        if errs:
            bad.setdefault(cls, []).append((c, errs))
    for cls, cs in sorted(classes.items(), key=lambda x: str(x)):
        b = bad.get(cls)
        name = "%s np=%d ndr=%d" % ("/".join(str(x) for x in cls[0]), cls[1], cls[2])
        ck.ob("C03-CTRL", name, not b, common.where(f),
              ("control %s..%s (%d values): %s" % (hex(min(cs)), hex(max(cs)), len(cs),
                                                  L2.expected(cs[0], bool(cls[1]), bool(cls[2]))["result"]))
              if not b else
              "control byte %s with need_properties=%d need_dictionary_reset=%d: %s" % (
                  hex(b[0][0]), cls[1], cls[2], "; ".join(b[0][1])),
              key="CTRL:%s" % name)
    ck.extra["ctrl_cases"] = len(table)
    ck.floor("C03-CTRL", 30)


def eval_pure_function(prog, fname, file, param, domain, out_fields=(), ok_ret=None):
    """Run E-FD on a pure decoder function with one byte-valued input tracked exactly;
    returns {input value: (return value set, {field: value})}."""
    cg = common.callgraph(prog)
    f = prog.fn(fname, file)
    keys = [fd.Key(param[0], param[1], domain=domain, label="in"),
            fd.Key("retval", "$ret", label="$ret")]
    for (rec, fl) in out_fields:
        keys.append(fd.Key("field", fl, rec=rec, label=fl))
    g = fd.FD(prog, f, keys, cg=cg, split=max(len(list(domain)) + 1, 300))
    inits = [g.make_state(**{"in": [v], "$ret": [machine.NO_RETURN_YET]}) for v in domain]
    g.run(inits)
    return f, g


def check_props(ck, prog):
    ck.rule("C03-PROPS", "pure property decoders evaluated over every byte value equal the spec tables")
    # LZMA2 dictionary size byte: accept 0..40 with reserved bits clear
    cg = common.callgraph(prog)
    f = prog.fn("lzma_lzma2_props_decode", L2F)
    ck.saw_function(f)
    rets = prog.enum("lzma_ret")
    # tracked: props[0] as deref/idx of param props -> model as key on idx expression
    kb = fd.Key("var", "$props0", domain=range(256), label="b")
    kb.matches = lambda n: (ex.strip(n) is not None and ex.strip(n).get("k") == "idx" and
                            ex.show(ex.strip(n)) == "props[0]")
    kd = fd.Key("field", "dict_size", rec="lzma_options_lzma", label="dict")
    kp = fd.Key("var", "props_size", domain=(1,), label="psz")
    g = fd.FD(prog, f, [kb, kd, kp, fd.Key("retval", "$ret", label="$ret")], cg=cg, split=300,
              call_values=lambda c, s: None)
    g.run([g.make_state(b=[v], psz=[1], **{"$ret": [machine.NO_RETURN_YET]}) for v in range(256)])
    res = {}
    for n in g.nodes:
        if n[0] != f.exit:
            continue
        b = g.get(n[1], "b")
        rv = g.get(n[1], "$ret")
        dv = g.get(n[1], "dict")
        if b is None or len(b) != 1:
            continue
        res.setdefault(list(b)[0], []).append((rv, dv))
    nbad = 0
    first = None
    for v in range(256):
        want = L2.dict_size_from_props(v) if not (v & 0xC0) else None
        outs = res.get(v, [])
        ok_outs = [o for o in outs if o[0] is not None and rets["LZMA_OK"] in o[0]]
        err_outs = [o for o in outs if o[0] is not None and rets["LZMA_OPTIONS_ERROR"] in o[0]]
        if want is None:
            good = bool(err_outs) and not ok_outs
        else:
            # OK with that dictionary size (MEM_ERROR exit also exists)
            good = bool(ok_outs) and all(o[1] is not None and set(o[1]) == {want} for o in ok_outs) \
                and not err_outs
        if not good:
            nbad += 1
            first = first or (v, want, outs)
    ck.ob("C03-PROPS", "lzma2-dict-byte", nbad == 0, common.where(f),
          "LZMA2 dictionary byte: all 256 values agree with the spec (0..40 accepted, sizes 4 KiB..4 GiB-1)"
          if nbad == 0 else
          "LZMA2 dictionary byte %d: code gives %s, spec %s (%d values differ)" % (
              first[0], [(sorted(o[0]) if o[0] else None, sorted(o[1]) if o[1] else None) for o in first[2]],
              first[1], nbad),
          key="PROPS:lzma2-dict-byte")
    ck.extra["props_cases"] = 256

    # lc/lp/pb byte
    f2 = prog.fn("lzma_lzma_lclppb_decode", "lzma_decoder.c")
    ck.saw_function(f2)
    keys = [fd.Key("var", "byte", domain=range(256), label="byte"),
            fd.Key("field", "lc", rec="lzma_options_lzma", label="lc"),
            fd.Key("field", "lp", rec="lzma_options_lzma", label="lp"),
            fd.Key("field", "pb", rec="lzma_options_lzma", label="pb"),
            fd.Key("retval", "$ret", label="$ret")]
    g2 = fd.FD(prog, f2, keys, cg=cg, split=300)
    # remember the input value in a shadow key: run one graph per value
    nbad = 0
    first = None
    for v in range(256):
        g2 = fd.FD(prog, f2, keys, cg=cg, split=300)
        g2.run([g2.make_state(byte=[v], **{"$ret": [machine.NO_RETURN_YET]})])
        outs = []
        for n in g2.nodes:
            if n[0] == f2.exit:
                outs.append((g2.get(n[1], "$ret"), g2.get(n[1], "lc"), g2.get(n[1], "lp"), g2.get(n[1], "pb")))
        want = L2.lclppb(v)
        if want is None:
            good = bool(outs) and all(o[0] is not None and 0 not in o[0] for o in outs)
        else:
            good = bool(outs) and all(o[0] is not None and set(o[0]) == {0} and
                                      o[1] is not None and set(o[1]) == {want[0]} and
                                      o[2] is not None and set(o[2]) == {want[1]} and
                                      o[3] is not None and set(o[3]) == {want[2]} for o in outs)
        if not good:
            nbad += 1
            first = first or (v, want, outs)
    ck.ob("C03-PROPS", "lclppb-byte", nbad == 0, common.where(f2),
          "lc/lp/pb byte: all 256 values agree with the spec (byte <= 224 and lc+lp <= 4 accepted)"
          if nbad == 0 else
          "lc/lp/pb byte %d: code gives %s, spec %s (%d values differ)" % (
              first[0], [tuple(sorted(x) if x else None for x in o) for o in first[2]], first[1], nbad),
          key="PROPS:lclppb-byte")


TABLE = [
    # ---- LZMA2 chunk bookkeeping ---------------------------------------------------
    Present("lzma2:in-used", "lzma2_decode", L2F,
            ("rel", "var:in_used", "field:compressed_size", (">",), "F"), DATA, init_seq=("SEQ_CONTROL",),
            why="LZMA chunk consumed more than its Compressed Size"),
    MP("lzma2:chunk-end", "lzma2_decode", L2F, [("cmp", "field:compressed_size", "const:0")],
       ("seq", "SEQ_CONTROL"), src=("SEQ_LZMA",), init_seq=("SEQ_CONTROL",), fail=DATA, states=("SEQ_LZMA",),
       why="next chunk only when the LZMA chunk used exactly its Compressed Size"),
    MP("lzma2:lzma-end", "lzma2_decode", L2F, [("res", "slot:code", END)],
       ("seq", "SEQ_CONTROL"), src=("SEQ_LZMA",), init_seq=("SEQ_CONTROL",),
       why="next chunk only when the LZMA decoder finished the chunk"),
    MP("lzma2:props", "lzma2_decode", L2F, [("res", "lzma_lzma_lclppb_decode", ("false",))],
       ("seq", "SEQ_LZMA"), src=("SEQ_PROPERTIES",), init_seq=("SEQ_CONTROL",), fail=DATA,
       why="properties byte validated before LZMA decoding"),
    # ---- LZMA1/LZMA2 props -----------------------------------------------------------
    Present("lzma2props:size", "lzma_lzma2_props_decode", L2F,
            ("test", "var:props_size", "F", ("!=",)), OPT, plain=True, why="LZMA2 props size is 1"),
    Present("lzmaprops:size", "lzma_lzma_props_decode", "lzma_decoder.c",
            ("test", "var:props_size", "F", ("!=",)), OPT, plain=True, why="LZMA1 props size is 5"),
    MP("lzmaprops:lclppb", "lzma_lzma_props_decode", "lzma_decoder.c",
       [("res", "lzma_lzma_lclppb_decode", ("false",))], ("ret", OK), plain=True,
       why="LZMA1 lc/lp/pb byte validated"),
    # ---- LZMA decoder end conditions ---------------------------------------------------
    Present("lzma:rc-init", "rc_read_init", "range_decoder.h", ("test", "idx:in&const:0", "F", ("!=",)),
            DATA, plain=True, why="first byte of the range coder stream is 0x00"),
    # ---- VLI -----------------------------------------------------------------------------
    Present("vli:minimal", "lzma_vli_decode", "vli_decoder.c",
            ("rel", "deref:vli_pos", "const:1", (">",), "F"), DATA, plain=True,
            why="non-minimal encodings (trailing 0x00 byte) rejected"),
    Present("vli:nine-bytes", "lzma_vli_decode", "vli_decoder.c",
            ("test", "deref:vli_pos&const:9", "F", ("==",)), DATA, plain=True,
            why="more than nine bytes rejected"),
    # ---- Filter flags ------------------------------------------------------------------------
    Present("ff:reserved-id", "lzma_filter_flags_decode", "filter_flags_decoder.c",
            ("rel", "field:id", "const:4611686018427387904", (">=",), "F"), DATA, plain=True,
            why="Filter IDs >= LZMA_FILTER_RESERVED_START rejected"),
    Present("ff:props-fit", "lzma_filter_flags_decode", "filter_flags_decoder.c",
            ("rel", "var:in_size", "var:props_size", ("<",), "F"), DATA, plain=True,
            why="Size of Properties must fit in the remaining header"),
    # ---- filter chain validation -------------------------------------------------------------
    Present("chain:null", "lzma_validate_chain", "filter_common.c",
            ("test", "var:filters", "F", ("==",)), ("LZMA_PROG_ERROR",), plain=True,
            why="NULL / empty chain rejected"),
    Present("chain:count", "lzma_validate_chain", "filter_common.c",
            ("rel", "var:i", "const:4", (">",), "F"), OPT, plain=True, count=1,
            why="at most LZMA_FILTERS_MAX filters"),
    Present("chain:non-last", "lzma_validate_chain", "filter_common.c",
            ("test", "var:non_last_ok", "T"), OPT, plain=True,
            why="a filter that must be last is not followed by another"),
    Present("chain:last", "lzma_validate_chain", "filter_common.c",
            ("test", "var:last_ok", "T"), OPT, plain=True, why="the last filter is allowed to be last"),
    Present("chain:changes-size", "lzma_validate_chain", "filter_common.c",
            ("rel", "var:changes_size_count", "const:3", (">",), "F"), OPT, plain=True,
            why="at most three filters that change the size"),
    # ---- LZ decoder chain rules ------------------------------------------------------------------
    Present("lz:this-finished", "lz_decode", "lz_decoder.c",
            ("test", "d_field:temp&d_field:size&const:0", "F", ("!=",)), DATA, plain=True,
            why="LZ decoder finished but filtered input remains"),
    Present("lz:next-finished", "lz_decode", "lz_decoder.c",
            ("rel", "deref:out_pos", "var:out_size", ("<",), "F"), None, plain=True, count=2,
            why="previous filter finished but the LZ decoder could not fill the output"),
    # ---- simple/delta props ------------------------------------------------------------------------
    Present("delta:props-size", "lzma_delta_props_decode", "delta_decoder.c",
            ("test", "var:props_size", "F", ("!=",)), OPT, plain=True, why="delta props size is 1"),
    Present("simple:props-size", "lzma_simple_props_decode", "simple_decoder.c",
            ("test", "var:props_size", "F", ("!=",)), OPT, plain=True, why="BCJ props size is 0 or 4"),
    Present("simple:alignment", "lzma_simple_coder_init", "simple_coder.c",
            ("test", "field:now_pos&var:alignment", "F"), OPT, plain=True,
            why="start_offset must be aligned"),
]


EXH = [
    # function, file, initial states
    ("stream_decode", "stream_decoder.c", ("SEQ_STREAM_HEADER",)),
    ("stream_decode_mt", "stream_decoder_mt.c", ("SEQ_STREAM_HEADER",)),
    ("block_decode", "block_decoder.c", ("SEQ_CODE",)),
    ("lzma_index_hash_decode", "index_hash.c", ("SEQ_BLOCK",)),
    ("index_decode", "index_decoder.c", ("SEQ_INDICATOR",)),
    ("lzip_decode", "lzip_decoder.c", ("SEQ_ID_STRING",)),
    ("alone_decode", "alone_decoder.c", ("SEQ_PROPERTIES",)),
    ("auto_decode", "auto_decoder.c", ("SEQ_INIT",)),
    ("lzma2_decode", "lzma2_decoder.c", ("SEQ_CONTROL",)),
    ("lzma_decode", "lzma_decoder.c", ("SEQ_IS_MATCH",)),
    ("file_info_decode", "file_info.c", ("SEQ_MAGIC_BYTES",)),
    ("microlzma_decode", "microlzma_decoder.c", None),
]


def check_exh(ck, prog):
    ck.rule("C03-EXH", "every state enumerator has a case label reachable from the initial state "
            "on the resume-aware product graph")
    for fname, file, init in EXH:
        f = prog.fn(fname, file, required=False)
        if f is None:
            ck.skip("C03-EXH: %s not built" % fname)
            continue
        from sa import resume as _r
        if not _r.Resume(prog, f).find_switch():
            continue
        ck.saw_function(f)
        m = graph_for(prog, f, (), {}, init, False)
        reach = set()
        for n in m.g.nodes:
            lb = f.blocks[n[0]].label
            if lb and lb.get("kind") == "case" and lb.get("n"):
                reach.add(lb["n"])
        labels = set()
        for s_ in m.swb.succs:
            if s_ is not None:
                lb = f.blocks[s_].label
                if lb and lb.get("n"):
                    labels.add(lb["n"])
        for name in sorted(m.enum):
            has = name in labels
            ok = has and name in reach
            ck.ob("C03-EXH", "%s:%s" % (fname, name), ok, common.where(f),
                  "state %s: %s" % (name, "case present and reachable" if ok else
                                    ("no case label" if not has else
                                     "case label unreachable from the initial state: the decoder can never "
                                     "accept input that needs this state")),
                  key="EXH:%s:%s" % (fname, name))
    ck.floor("C03-EXH", 80)


def _canon_rel(c, negate=False):
    """(op, left text, right text) of a relational condition with `negate` applied and the variable side first."""
    c = ex.strip(c)
    while c is not None and c.get("k") == "un" and c["op"] == "!":
        negate = not negate
        c = ex.strip(c["e"])
    if c is None or c.get("k") != "bin" or c["op"] not in ("<", "<=", ">", ">=", "==", "!="):
        return None
    op = c["op"]
    if negate:
        op = {"<": ">=", ">=": "<", ">": "<=", "<=": ">", "==": "!=", "!=": "=="}[op]
    l, r = ex.show(c["l"]), ex.show(c["r"])
    if l > r:
        l, r = r, l
        op = {"<": ">", ">": "<", "<=": ">=", ">=": "<=", "==": "==", "!=": "!="}[op]
    return (op, l, r)


def check_dict_siblings(ck, prog):
    """dict_get() and dict_repeat() locate the byte `distance + 1` positions back in the circular history with the
    same rule: index pos - distance - 1, plus (size - LZ_DICT_REPEAT_MAX) exactly when distance >= pos.  They are
    two implementations of one interface and must agree (Engler-style sibling cross-check)."""
    ck.rule("C03-DICTSIB", "dict_get and dict_repeat compute the source index of a match with the same wrap rule")
    forms = {}
    for fn in ("dict_get", "dict_repeat"):
        f = None
        for cand in prog.functions.get(fn, []):
            if cand.blocks:
                f = cand
        if f is None:
            raise AnalysisBroken("%s not found" % fn)
        ck.saw_function(f)
        base = wrap_pred = wrap_amt = None
        if fn == "dict_get":
            for b, i, e in f.iter_elems():
                for x in ex.walk(e, into_refs=True):
                    if x.get("k") == "cond":
                        t_, f_ = ex.const_val(x["t"]), ex.const_val(x["f"])
                        if t_ == 0:
                            wrap_pred, wrap_amt = _canon_rel(x["c"], negate=True), ex.show(x["f"])
                        elif f_ == 0:
                            wrap_pred, wrap_amt = _canon_rel(x["c"]), ex.show(x["t"])
                    if x.get("k") == "bin" and x["op"] == "+" and ex.strip(x["r"]) is not None and \
                            ex.strip(x["r"]).get("k") in ("cond", "eref"):
                        base = ex.show(x["l"])
            # with a separate block structure the conditional operator becomes a branch
            if wrap_pred is None:
                for b in f.blocks.values():
                    if b.term and "cond" in b.term and "distance" in ex.show(b.term["cond"]):
                        tb = f.blocks[b.succs[0]]
                        tv = [ex.const_val(e) for e in tb.elems if e is not None]
                        if 0 in tv:
                            wrap_pred = _canon_rel(b.term["cond"], negate=True)
                            fb = f.blocks[b.succs[1]]
                            wrap_amt = [ex.show(e) for e in fb.elems if e is not None][-1]
                        else:
                            wrap_pred = _canon_rel(b.term["cond"])
                            wrap_amt = [ex.show(e) for e in tb.elems if e is not None][-1]
                for b, i, e in f.iter_elems():
                    for x in ex.walk(e, into_refs=False):
                        if x.get("k") == "bin" and x["op"] == "-" and ex.show(x) == "(dict->pos - distance) - 1":
                            base = ex.show(x)
        else:
            for b, i, e in f.iter_elems():
                e_ = ex.deref(e)
                if e_.get("k") == "decl" and e_["n"] == "back" and e_.get("init") is not None:
                    base = ex.show(e_["init"])
            for b in f.blocks.values():
                if b.term and "cond" in b.term and len(b.succs) == 2:
                    tb = f.blocks[b.succs[0]]
                    adds = [ex.show(r) for e in tb.elems if e for (l, r, op, n) in ex.writes(e)
                            if ex.show(l) == "back" and op == "+="]
                    if adds:
                        wrap_pred, wrap_amt = _canon_rel(b.term["cond"]), adds[0]
        forms[fn] = (base, wrap_pred, wrap_amt)
    a, b_ = forms["dict_get"], forms["dict_repeat"]

    def norm(t):
        return None if t is None else t.replace("(", "").replace(")", "")
    ok = a[1] is not None and a[1] == b_[1] and norm(a[2]) == norm(b_[2]) and norm(a[0]) == norm(b_[0]) and \
        a[1] == (">=", "dict->pos", "distance") or (a[1] == b_[1] == ("<=", "dict->pos", "distance") and
                                                     norm(a[2]) == norm(b_[2]) and norm(a[0]) == norm(b_[0]))
    ck.ob("C03-DICTSIB", "dict_get/dict_repeat", bool(ok), "src/liblzma/lz/lz_decoder.h",
          "both use index %s and add %s exactly when %s" % (a[0], a[2], a[1]) if ok else
          "dict_get() uses index %s and adds %s when %s, but dict_repeat() uses index %s and adds %s when %s: for the "
          "boundary distance the two read different history bytes (one of them outside the buffer)" % (
              a[0], a[2], a[1], b_[0], b_[2], b_[1]), key="DICTSIB:get-vs-repeat")


def check_dict_fresh(ck, prog, rule="C03-DICTFRESH"):
    """dict->full (how much history is valid) is derived from dict->pos.  In the three helpers that append to the
    dictionary (dict_put, dict_repeat, dict_write) the derivation has to come AFTER the last change of dict->pos in the
    call, otherwise `full` lags behind the data just written and a valid match into it is rejected as
    `distance >= full` (LZMA_DATA_ERROR on a valid stream)."""
    ck.rule(rule, "dict->full is recomputed from dict->pos after the last modification of dict->pos in each helper")
    n = 0
    for fn in ("dict_put", "dict_repeat", "dict_write"):
        f = None
        for cand in prog.functions.get(fn, []):
            if cand.blocks:
                f = cand
        if f is None:
            raise AnalysisBroken("%s not found" % fn)
        ck.saw_function(f)

        def writes_pos(e):
            for (l, r, op, nd) in ex.writes(e):
                if ex.show(l) == "dict->pos":
                    return True
            for x in ex.walk(e):
                if x.get("k") == "un" and x.get("op") in ("pre++", "post++", "pre--", "post--") and ex.show(x["e"]) == "dict->pos":
                    return True
                if x.get("k") == "un" and x.get("op") == "&" and ex.show(x["e"]) == "dict->pos":
                    return True
            return False
        posb = {}
        for b, i, e in f.iter_elems():
            if writes_pos(e):
                posb.setdefault(b.id, []).append(i)
        def is_full_store(l, r):
            return ex.show(l) == "dict->full" and r is not None and "dict->pos" in ex.show(r)
        stores = [(b, i, nd) for b, i, e in f.iter_elems() for (l, r, op, nd) in ex.writes(e) if is_full_store(l, r)]
        # ... or a call of a static helper that does it for the same `dict` (the three tails are identical and may be shared)
        for b, i, e in f.iter_elems():
            for c in ex.calls(e, into_refs=False):
                if c.get("fn") and c["args"] and ex.show(c["args"][0]) == "dict":
                    for cand in prog.functions.get(c["fn"], []):
                        if cand.blocks and cand.static and cand.params and cand.params[0]["n"] == "dict" and any(
                                is_full_store(l, r) for b2, i2, e2 in cand.iter_elems() for (l, r, op, nd) in ex.writes(e2)) \
                                and not any(ex.show(l) == "dict->pos" for b2, i2, e2 in cand.iter_elems() for (l, r, op, nd) in ex.writes(e2)):
                            stores.append((b, i, c))
        if not posb:
            raise AnalysisBroken("%s: no modification of dict->pos" % fn)
        if not stores:
            n += 1
            ck.ob(rule, fn, False, common.where(f),
                  "%s() advances dict->pos but never recomputes dict->full: the bytes it writes are not counted as history, so a "
                  "later match that refers to them is rejected as corrupt" % fn, key="DICTFRESH:" + fn)
            continue
        bad = None
        for (b, i, nd) in stores:
            if any(j > i for j in posb.get(b.id, ())):
                bad = nd
                continue
            later = cfg.reachable(f, [y for y in b.succs if y is not None])
            if any(x in later for x in posb):
                bad = nd
        n += 1
        ck.ob(rule, fn, bad is None, common.where(f, bad or stores[0][2]),
              "%s: dict->full is derived after the last change of dict->pos" % fn if bad is None else
              "%s(): `dict->full = dict->pos - ...` (line %s) is computed BEFORE dict->pos is advanced in the same call: the "
              "bytes just written are not counted as history, and a later match that refers to them is rejected as "
              "corrupt" % (fn, ex.line(bad)), key="DICTFRESH:" + fn)
    return n


def check_fastslow(ck, prog, rule="C03-FASTSLOW"):
    """lzma_decode() contains the symbol decoder twice (the fast loop and the resumable switch).  The literal
    probability table is selected by the macro literal_subcoder(probs, lc, mask, pos, prev_byte): all expansions in the
    function must be the same expression (full dictionary position, previous byte), otherwise the two copies decode
    different streams and the result depends on which copy handled the symbol (i.e. on input slicing)."""
    ck.rule(rule, "the fast and the resumable copy of the LZMA symbol decoder select the literal coder identically")
    f = prog.fn("lzma_decode", "lzma_decoder.c")
    ck.saw_function(f)
    exps = []
    for b, i, e in f.iter_elems():
        for (l, r, op, nd) in ex.writes(e):
            r0 = ex.deref(r) if r is not None else None
            if r0 is not None and r0.get("om") == "literal_subcoder" and r0.get("m") == "literal_subcoder":
                exps.append((r0, nd))
    if len(exps) < 2:
        raise AnalysisBroken("lzma_decode: fewer than two expansions of literal_subcoder found")
    ref = exps[0][0]
    bad = [nd for (r0, nd) in exps[1:] if not ex.same(r0, ref)]
    uses_pos = all(any(x.get("k") == "mem" and x.get("f") == "pos" and x.get("rec") == "lzma_dict" for x in ex.walk(r0))
                   for (r0, nd) in exps)
    ok = not bad and uses_pos
    ck.ob(rule, "literal_subcoder", ok, common.where(f, bad[0] if bad else exps[0][1]),
          "%d expansions of literal_subcoder in lzma_decode are identical and use dict.pos" % len(exps) if ok else
          "lzma_decode(): the expansions of literal_subcoder differ: `%s` (line %s) vs `%s` (line %s): the fast loop and the "
          "resumable path pick different literal probability sets (for lp > pb), so a stream decodes differently "
          "depending on which path handles a literal" % (
              ex.show(ref)[:90], ex.line(exps[0][1]), ex.show((bad and [r0 for (r0, nd) in exps if nd is bad[0]][0]) or ref)[:90],
              ex.line(bad[0]) if bad else "?"), key="FASTSLOW:literal_subcoder")


def run(ck):
    ck.explanation = (
        "Exhaustive finite-domain abstract evaluation of the LZMA2 control-byte decision and of the pure "
        "property-byte decoders against independent spec tables; rejection obligations (guard exists and its "
        "violating edge returns the error code) for reserved bits, VLI rules, filter IDs, chain rules and end "
        "conditions; state-machine exhaustiveness on the resume-aware product graph.")
    ck.not_decided = ("that accepted streams decode to the specified bytes (LZMA symbol decoding, dictionary "
                      "copies), all lc/lp/pb behaviours, empty Blocks beyond the state machine shape.")
    ck.exhaustive = True
    prog = common.program(ck, ("liblzma",))
    check_ctrl(ck, prog)
    check_props(ck, prog)
    ck.rule("C03-OBL", "each rejection demanded by the formats has its guard; the violating edge returns the error")
    evaluate(ck, prog, "C03-OBL", TABLE, floor=20)
    check_exh(ck, prog)
    # a valid stream is accepted however the input is sliced: resumable decoders persist every live local
    from . import C06
    C06.check_resume(ck, prog, RULE="C03-RESUME", only_files={"lzma_decoder.c", "lzma2_decoder.c", "lz_decoder.c", "block_decoder.c", "stream_decoder.c", "index_decoder.c", "index_hash.c", "vli_decoder.c", "stream_decoder_mt.c"}, floor=8)
    C06.check_seqlabel(ck, prog, rule="C03-SEQLABEL")
    check_dict_fresh(ck, prog)
    check_fastslow(ck, prog)
    # a dictionary reset (LZMA2 control 0x01 / >= 0xE0 in the middle of a stream) must forget everything that the
    # coding so far left in the window bookkeeping
    from . import reinit
    ck.rule("C03-DICTRESET", "lz_decoder_reset() re-initialises every lzma_dict member that decoding modifies")
    reinit.check_reset_cover(ck, prog, "C03-DICTRESET", [
        ("lz_decoder_reset", "lz_decoder.c", "lzma_dict", ("lzma_lz_decoder_init",),
         {"limit": "set by decode_buffer() before every call of the LZ decoder"}),
    ])
    ck.floor("C03-DICTRESET", 5)
    check_dict_siblings(ck, prog)
    # a valid stream behind a BCJ filter decodes to the specified bytes only if the filter wrapper's buffer bookkeeping is
    # exact (rule shared with C15)
    from . import C15
    ck.rule("C03-BCJBUF", "simple_code: compaction of coder->buffer moves pos/size by the amount that memmove() discarded")
    C15.check_compact(ck, prog, rule="C03-BCJBUF")
    # "all Check IDs": a valid file with a SHA-256 Check is accepted only if the decoder computes the standard hash
    from . import C14
    C14.check_sha(ck, prog)
    # a decoder (or a filter behind it) that is re-used for the next Block/Stream starts from what its init function
    # stores, not from what the previous Block left (delta history, LZMA2 need_properties, ...)
    ck.rule("C03-READFIRST", "decoders and filters: what the coding function can read before storing to it is stored by the init function on every path returning LZMA_OK")
    reinit.check_read_first(ck, prog, "C03-READFIRST", files={
        "delta_common.c", "simple_coder.c", "lzma2_decoder.c", "lzma_decoder.c", "lz_decoder.c", "block_decoder.c",
        "stream_decoder.c", "index_decoder.c", "alone_decoder.c", "lzip_decoder.c"})
    ck.floor("C03-READFIRST", 30)
    # state reset between LZMA2 chunks / Blocks initialises the whole model (shared with C01)
    from . import C01, C05
    C01.check_reset(ck, prog)
    # a Block whose real sizes differ from its Block Header is not a valid Block (rules shared with C05)
    ck.rule("C03-BLOCK", "block_decode: both sizes from the Block Header are compared with the counted sizes; end only after "
                         "the filter chain finished")
    evaluate(ck, prog, "C03-BLOCK", [t for t in C05.TABLE if getattr(t, "fn", "") == "block_decode"], floor=4)
