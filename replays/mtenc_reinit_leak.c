/* C08: re-initialising a threaded encoder (same thread count) right after a worker was handed a new Block loses that
 * worker: threads_stop() overwrites THR_RUN with THR_STOP before the worker noticed its work, the worker turns it into
 * THR_IDLE in its wait loop, and nobody puts it back on coder->threads_free.  After `threads` such re-initialisations no
 * worker is left and lzma_code() waits forever (timeout = 0).
 * Build: cc -O1 -g -I/repo/src/liblzma/api mtenc_reinit_leak.c <liblzma.a> -lpthread -o leak ; run: ./leak
 * Expected (fixed): "ok: stream finished"; before the fix: "DEADLOCK: lzma_code() did not return within 10 s". */
#include <lzma.h>
#include <signal.h>
#include <stdio.h>
#include <stdlib.h>
#include <string.h>
#include <unistd.h>
static void on_alarm(int s){ (void)s; static const char m[]="DEADLOCK: lzma_code() did not return within 10 s\n"; if (write(1,m,sizeof m-1)) {} _exit(1); }
int main(void){
  static unsigned char in[1<<20], out[1<<21];
  unsigned x = 1; for (size_t i=0;i<sizeof in;i++){ x = x*1103515245u+12345u; in[i]=x>>16; }
  lzma_stream s = LZMA_STREAM_INIT;
  lzma_mt mt = { .flags=0, .threads=4, .block_size=256<<10, .timeout=0, .preset=0, .filters=NULL, .check=LZMA_CHECK_CRC32 };
  signal(SIGALRM, on_alarm);
  alarm(10);
  for (int it=0; it<64; it++){
    if (lzma_stream_encoder_mt(&s,&mt)!=LZMA_OK) return 2;
    /* a little input: the encoder takes a worker, tells it to run, copies the bytes and returns */
    s.next_in=in; s.avail_in=1000; s.next_out=out; s.avail_out=sizeof out;
    if (lzma_code(&s, LZMA_RUN)!=LZMA_OK) return 2;
  }
  if (lzma_stream_encoder_mt(&s,&mt)!=LZMA_OK) return 2;
  s.next_in=in; s.avail_in=sizeof in; s.next_out=out; s.avail_out=sizeof out;
  lzma_ret r;
  do r = lzma_code(&s, LZMA_FINISH); while (r==LZMA_OK);
  alarm(0);
  printf(r==LZMA_STREAM_END ? "ok: stream finished (%llu bytes)\n" : "error %d\n", r==LZMA_STREAM_END ? (unsigned long long)s.total_out : (unsigned long long)r);
  lzma_end(&s);
  return r!=LZMA_STREAM_END;
}
