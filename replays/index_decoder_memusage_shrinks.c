// Build+run:
//   W=/tmp/probe/G; gcc -g -fsanitize=address,undefined -I$W/src/liblzma/api repro.c -o repro $W/_asan/liblzma.a -lpthread && timeout 60 ./repro
//   (link against $W/_rel/liblzma.a, a -DNDEBUG build, to see LZMA_PROG_ERROR instead of the assertion failure)
//
// The Index decoder's memconfig reports lzma_index_memusage(1, <Records still to be decoded>)
// instead of the Records in the Index, so lzma_memusage() shrinks while decoding and
// lzma_memlimit_set() accepts limits far below the memory really in use. In the file info
// decoder this ends in assert(memused <= coder->memlimit) / LZMA_PROG_ERROR.
#include <lzma.h>
#include <stdio.h>
#include <stdlib.h>
#include <string.h>
#include <inttypes.h>
#include <unistd.h>

static uint8_t file[1 << 20]; static size_t fsize;

// Append a Stream with n "Blocks" (8 zero bytes each; the file info decoder never reads them).
static void add_stream(unsigned n)
{
	lzma_stream_flags sf = { .version = 0, .check = LZMA_CHECK_NONE };
	(void)!lzma_stream_header_encode(&sf, file + fsize); fsize += 12;
	lzma_index *i = lzma_index_init(NULL);
	for (unsigned k = 0; k < n; ++k) { (void)!lzma_index_append(i, NULL, 8, 100); fsize += 8; }
	sf.backward_size = lzma_index_size(i);
	lzma_index_buffer_encode(i, file, &fsize, sizeof(file));
	(void)!lzma_stream_footer_encode(&sf, file + fsize); fsize += 12;
	lzma_index_end(i, NULL);
}

int main(void)
{
	alarm(60);
	setvbuf(stdout, NULL, _IONBF, 0);

	// Part 1: plain Index decoder.
	{
		lzma_index *i = lzma_index_init(NULL);
		for (unsigned k = 0; k < 5000; ++k) (void)!lzma_index_append(i, NULL, 8, 100);
		static uint8_t buf[65536]; size_t isz = 0;
		lzma_index_buffer_encode(i, buf, &isz, sizeof(buf));
		lzma_index_end(i, NULL);

		lzma_stream s = LZMA_STREAM_INIT; lzma_index *d = NULL;
		(void)!lzma_index_decoder(&s, &d, UINT64_MAX);
		s.next_in = buf; s.avail_in = isz - 8; // everything but the last Record's tail + CRC32
		lzma_ret r = lzma_code(&s, LZMA_RUN);
		printf("index decoder: ret=%d after %zu of %zu bytes; lzma_memusage()=%" PRIu64
				", lzma_index_memusage(1, 5000)=%" PRIu64 "\n", r, isz - 8, isz,
				lzma_memusage(&s), lzma_index_memusage(1, 5000));
		printf("lzma_memlimit_set(10000) = %d (memory for ~5000 Records is already allocated;"
				" expected LZMA_MEMLIMIT_ERROR = %d)\n",
				lzma_memlimit_set(&s, 10000), LZMA_MEMLIMIT_ERROR);
		s.avail_in = 8;
		r = lzma_code(&s, LZMA_RUN);
		printf("finish: ret=%d, lzma_memusage()=%" PRIu64 ", lzma_index_memused(result)=%" PRIu64 "\n",
				r, lzma_memusage(&s), lzma_index_memused(d));
		lzma_end(&s); lzma_index_end(d, NULL);
	}

	// Part 2: file info decoder; two Streams, the last one has 5000 Records.
	add_stream(1);
	add_stream(5000);
	lzma_stream s = LZMA_STREAM_INIT; lzma_index *idx = NULL;
	lzma_file_info_decoder(&s, &idx, UINT64_MAX, fsize);
	uint64_t pos = 0; int lowered = 0, in_index = 0;
	const uint64_t index_start = fsize - 12 - 10008; // Index of the last Stream (too big for the internal 8 KiB buffer)
	for (;;) {
		uint8_t buf[512];
		if (s.avail_in == 0) {
			size_t n = fsize - pos < sizeof(buf) ? fsize - pos : sizeof(buf);
			memcpy(buf, file + pos, n); pos += n; s.next_in = buf; s.avail_in = n;
		}
		lzma_ret r = lzma_code(&s, LZMA_RUN);
		if (r == LZMA_SEEK_NEEDED) { pos = s.seek_pos; s.avail_in = 0; in_index = pos == index_start; continue; }
		if (r != LZMA_OK) { printf("file info decoder: ret=%d (LZMA_STREAM_END=1, LZMA_PROG_ERROR=11)\n", r); break; }
		// In the middle of the big Index: ask how much memory is needed and set exactly
		// that as the new limit (e.g. an application tightening its budget).
		if (!lowered && in_index && pos > index_start + 9000 && pos < index_start + 10000) {
			uint64_t mu = lzma_memusage(&s);
			printf("file info decoder mid-Index: lzma_memusage()=%" PRIu64 "; lzma_memlimit_set(%" PRIu64 ")=%d\n",
					mu, mu, lzma_memlimit_set(&s, mu));
			lowered = 1;
		}
	}
	lzma_end(&s); lzma_index_end(idx, NULL);
	return 0;
}
