// Data race (TSan) in the threaded decoder: worker_decoder() writes thr->partial_update without any lock
// while the main thread reads it in read_output_and_wait() holding only coder->mutex.
//
//   W=/tmp/probe/B; gcc -g -O1 -fsanitize=thread -I$W/src/liblzma/api repro.c $W/_tsan/liblzma.a -lpthread -o repro \
//      && timeout 120 ./repro   # prints a TSan "data race" report for stream_decoder_mt.c:416 vs :823
// (_tsan = cmake -DCMAKE_BUILD_TYPE=Debug -DCMAKE_C_FLAGS="-fsanitize=thread -g" -DBUILD_SHARED_LIBS=OFF)
#include <lzma.h>
#include <stdio.h>
#include <stdlib.h>
#include <string.h>
#include <unistd.h>

#define N (4u << 20)
static uint8_t plain[N], comp[N * 2], out[N];

int main(void)
{
	alarm(120);
	unsigned x = 1;
	for (size_t i = 0; i < N; i++) { x = x * 1103515245 + 12345; plain[i] = (i / 3000) & 1 ? (uint8_t)(x >> 16) : (uint8_t)(i % 13); }
	lzma_stream s = LZMA_STREAM_INIT;
	lzma_mt emt = { .threads = 2, .block_size = 1 << 19, .preset = 0, .check = LZMA_CHECK_CRC32 };
	if (lzma_stream_encoder_mt(&s, &emt) != LZMA_OK) return 2;
	s.next_in = plain; s.avail_in = N; s.next_out = comp; s.avail_out = sizeof comp;
	lzma_ret r; while ((r = lzma_code(&s, LZMA_FINISH)) == LZMA_OK) ;
	if (r != LZMA_STREAM_END) return 2;
	size_t clen = sizeof comp - s.avail_out;
	lzma_end(&s);

	// Truncate in the middle of the last Block and decode in one shot with LZMA_FINISH: the main thread
	// first drains the earlier Blocks, then enables partial output for the last worker (PARTIAL_START) and
	// polls thr->partial_update / waits, while that worker switches itself to PARTIAL_ENABLED without a lock.
	clen -= 200000;
	for (int rep = 0; rep < 50; rep++) {
		lzma_stream d = LZMA_STREAM_INIT;
		lzma_mt o = { .threads = 6, .memlimit_threading = UINT64_MAX, .memlimit_stop = UINT64_MAX };
		if (lzma_stream_decoder_mt(&d, &o) != LZMA_OK) return 3;
		d.next_in = comp; d.avail_in = clen; d.next_out = out; d.avail_out = N;
		do r = lzma_code(&d, LZMA_FINISH); while (r == LZMA_OK);
		if (r != LZMA_BUF_ERROR || memcmp(out, plain, d.total_out)) { printf("bad result %d\n", r); return 4; }
		lzma_end(&d);
	}
	printf("done\n");
	return 0;
}
