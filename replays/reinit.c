#include <lzma.h>
#include <stdio.h>
#include <stdlib.h>
#include <string.h>
#include <pthread.h>
#include <unistd.h>
static pthread_t main_tid;
static volatile int arm = 0, in_worker = 0, go = 0;
static void *my_alloc(void *opaque, size_t n, size_t s){
  if (arm && !pthread_equal(pthread_self(), main_tid)) {
    in_worker = 1;
    while (!go) usleep(1000);
    return NULL;             /* allocation failure inside the worker */
  }
  return malloc(n*s);
}
static void my_free(void *o, void *p){ free(p); }
static void *releaser(void *x){ usleep(300000); go = 1; return NULL; }
int main(void){
  main_tid = pthread_self();
  lzma_allocator al = { my_alloc, my_free, NULL };
  lzma_stream s = LZMA_STREAM_INIT; s.allocator = &al;
  lzma_mt mt = { .flags=0, .threads=2, .block_size=1<<20, .timeout=0, .preset=1, .filters=NULL, .check=LZMA_CHECK_CRC32 };
  if (lzma_stream_encoder_mt(&s,&mt)!=LZMA_OK) return 2;
  static unsigned char in[1<<16], out[1<<20];
  memset(in,'a',sizeof in);
  arm = 1;
  s.next_in=in; s.avail_in=sizeof in; s.next_out=out; s.avail_out=sizeof out;
  lzma_ret r = lzma_code(&s, LZMA_RUN);
  printf("first session lzma_code=%d\n", r);
  while(!in_worker) usleep(1000);          /* worker is now blocked inside the allocator */
  pthread_t t; pthread_create(&t,NULL,releaser,NULL);
  /* re-initialise the same stream for a new, unrelated session */
  r = lzma_stream_encoder_mt(&s,&mt);
  arm = 0;
  printf("re-init=%d\n", r);
  pthread_join(t,NULL);
  s.next_in=in; s.avail_in=sizeof in; s.next_out=out; s.avail_out=sizeof out;
  r = lzma_code(&s, LZMA_FINISH);
  while (r==LZMA_OK) r = lzma_code(&s, LZMA_FINISH);
  printf("new session result=%d (%s)\n", r, r==LZMA_STREAM_END?"ok":"stale error from the previous session");
  lzma_end(&s);
  return r!=LZMA_STREAM_END;
}
