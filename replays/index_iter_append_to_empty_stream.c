// W=/tmp/probe/C; cc -g -I$W/src/liblzma/api repro.c $W/_asan/liblzma.a -fsanitize=address,undefined -lpthread -o repro && timeout 60 ./repro
//
// lzma_index_iter_next() skips the first Block that was appended to a Stream
// which was empty when the iterator was positioned on it.
#include <lzma.h>
#include <stdio.h>
#include <unistd.h>

static void show(const char *what, lzma_bool end, const lzma_index_iter *it)
{
	if (end) printf("%-40s -> end\n", what);
	else printf("%-40s -> stream %llu (block_count %llu), block #%llu unpadded=%llu uncompressed=%llu\n", what,
			(unsigned long long)it->stream.number, (unsigned long long)it->stream.block_count,
			(unsigned long long)(it->stream.block_count ? it->block.number_in_file : 0),
			(unsigned long long)(it->stream.block_count ? it->block.unpadded_size : 0),
			(unsigned long long)(it->stream.block_count ? it->block.uncompressed_size : 0));
}

int main(void)
{
	alarm(60);
	// ---- Case 1: fresh index, iterator placed on the (empty) first Stream
	lzma_index *i = lzma_index_init(NULL);
	lzma_index_iter it;
	lzma_index_iter_init(&it, i);
	show("case1: next(ITER_ANY) on empty index", lzma_index_iter_next(&it, LZMA_INDEX_ITER_ANY), &it);

	// Blocks are added later (index.h: the iterator stays valid when Blocks
	// are added with lzma_index_append()).
	if (lzma_index_append(i, NULL, 101, 1001) || lzma_index_append(i, NULL, 102, 1002) || lzma_index_append(i, NULL, 103, 1003)) return 2;

	show("case1: next(ITER_BLOCK) [expect block #1]", lzma_index_iter_next(&it, LZMA_INDEX_ITER_BLOCK), &it);
	show("case1: next(ITER_BLOCK) [expect block #2]", lzma_index_iter_next(&it, LZMA_INDEX_ITER_BLOCK), &it);
	show("case1: next(ITER_BLOCK) [expect block #3]", lzma_index_iter_next(&it, LZMA_INDEX_ITER_BLOCK), &it);
	show("case1: next(ITER_BLOCK) [expect end]", lzma_index_iter_next(&it, LZMA_INDEX_ITER_BLOCK), &it);

	// ---- Case 2: the same with exactly one appended Block: it is never returned
	lzma_index *j = lzma_index_init(NULL);
	lzma_index_iter_init(&it, j);
	show("case2: next(ITER_STREAM) on empty index", lzma_index_iter_next(&it, LZMA_INDEX_ITER_STREAM), &it);
	if (lzma_index_append(j, NULL, 201, 2001)) return 2;
	show("case2: next(ITER_ANY) [expect block #1]", lzma_index_iter_next(&it, LZMA_INDEX_ITER_ANY), &it);

	// ---- Control: iterator that is positioned on a Block handles appends fine
	lzma_index *k = lzma_index_init(NULL);
	if (lzma_index_append(k, NULL, 301, 3001)) return 2;
	lzma_index_iter_init(&it, k);
	show("control: next(ITER_BLOCK) [block #1]", lzma_index_iter_next(&it, LZMA_INDEX_ITER_BLOCK), &it);
	show("control: next(ITER_BLOCK) [end]", lzma_index_iter_next(&it, LZMA_INDEX_ITER_BLOCK), &it);
	if (lzma_index_append(k, NULL, 302, 3002)) return 2;
	show("control: next(ITER_BLOCK) [expect block #2]", lzma_index_iter_next(&it, LZMA_INDEX_ITER_BLOCK), &it);

	lzma_index_end(i, NULL); lzma_index_end(j, NULL); lzma_index_end(k, NULL);
	return 0;
}
