#include <lzma.h>
#include <stdio.h>
#include <errno.h>
#include <pthread.h>
static int fail_mutex_init = 0;
int pthread_mutex_init(pthread_mutex_t *m, const pthread_mutexattr_t *a){
  if (fail_mutex_init) return ENOMEM;
  /* minimal init */
  static const pthread_mutex_t z = PTHREAD_MUTEX_INITIALIZER; *m = z; return 0;
}
int main(void){
  lzma_stream s = LZMA_STREAM_INIT;
  lzma_mt mt = { .flags = 0, .threads = 2, .timeout = 0, .memlimit_threading = UINT64_MAX, .memlimit_stop = UINT64_MAX };
  fail_mutex_init = 1;
  lzma_ret r = lzma_stream_decoder_mt(&s, &mt);
  printf("ret=%d\n", r);
  lzma_end(&s);
  return 0;
}
