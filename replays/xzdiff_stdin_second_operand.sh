#!/bin/sh
# Run: sh repro.sh      (uses the build in /tmp/probe/E/_build; override with B=/path/to/build)
# Every command is run under 'timeout 60'.
B=${B:-/tmp/probe/E/_build}
W=$(mktemp -d) || exit 1
trap 'rm -rf "$W"' 0
mkdir "$W/bin"
for n in xz xzgrep xzdiff xzless xzmore; do ln -s "$B/$n" "$W/bin/$n"; done
for n in xzcmp lzdiff lzcmp; do ln -s "$B/xzdiff" "$W/bin/$n"; done
for n in xzegrep xzfgrep lzgrep; do ln -s "$B/xzgrep" "$W/bin/$n"; done
PATH=$W/bin:$PATH; LC_ALL=C; export PATH LC_ALL
cd "$W" || exit 1
t() { echo "\$ $*"; timeout 60 "$@"; echo "[exit status $?]"; }
printf 'one\ntwo\nthree\n' > a; printf 'one\n2\nthree\n' > b; : > empty
xz -k a b empty; gzip -k a
echo "### Reference: diff a - < b  (files differ in line 2)"
t diff a - < b
echo "### xzdiff with stdin as the SECOND operand: compares a.xz with nothing"
t xzdiff a.xz - < b.xz
echo "### identical data is reported as different"
t xzcmp a.xz - < a.xz
t xzdiff a.gz - < a.xz
echo "### different data is reported as identical (empty file vs. non-empty stdin)"
t xzcmp empty.xz - < a.xz
t xzdiff empty.xz - < a.xz
echo "### stdin as the FIRST operand works"
t xzdiff - b.xz < a.xz
