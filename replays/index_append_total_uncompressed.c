// Build+run (from this directory):
//   W=/tmp/probe/G; gcc -g -fsanitize=address,undefined -I$W/src/liblzma/api repro.c -o repro $W/_asan/liblzma.a -lpthread && timeout 60 ./repro
// (any build of liblzma works; _asan is the Debug ASan/UBSan build of the unmodified worktree)
#include <lzma.h>
#include <stdio.h>
#include <inttypes.h>
#include <unistd.h>

int main(void)
{
	alarm(60);
	// Stream 1: one Block with Uncompressed Size = LZMA_VLI_MAX (allowed: per-Stream limit).
	lzma_index *a = lzma_index_init(NULL);
	printf("append S1: %d\n", lzma_index_append(a, NULL, 8, LZMA_VLI_MAX));

	// Stream 2 (empty) concatenated: OK, total uncompressed is still LZMA_VLI_MAX.
	lzma_index *b = lzma_index_init(NULL);
	printf("cat empty S2: %d\n", lzma_index_cat(a, b, NULL));

	// Appending to the last Stream only checks the per-Stream sum, not the total
	// => lzma_index_uncompressed_size() becomes 2 * LZMA_VLI_MAX, not a valid lzma_vli.
	lzma_ret r = lzma_index_append(a, NULL, 8, LZMA_VLI_MAX);
	printf("append S2: %d (expected %d = LZMA_DATA_ERROR)\n", r, LZMA_DATA_ERROR);
	printf("uncompressed_size = %" PRIu64 " (LZMA_VLI_MAX = %" PRIu64 ") valid vli: %s\n",
			lzma_index_uncompressed_size(a), (uint64_t)LZMA_VLI_MAX,
			lzma_index_uncompressed_size(a) <= LZMA_VLI_MAX ? "yes" : "NO");

	// The encoded single-Stream Index of this lzma_index cannot be decoded anymore.
	uint8_t buf[256]; size_t pos = 0;
	printf("buffer_encode: %d\n", lzma_index_buffer_encode(a, buf, &pos, sizeof(buf)));
	lzma_index *d; uint64_t memlimit = UINT64_MAX; size_t ip = 0;
	printf("buffer_decode of that: %d (9 = LZMA_DATA_ERROR)\n",
			lzma_index_buffer_decode(&d, &memlimit, NULL, buf, &ip, pos));

	// Now the overflow check in lzma_index_cat() wraps around in uint64_t:
	// (2^64 - 2) + 5 == 3 <= LZMA_VLI_MAX, so the cat is accepted.
	lzma_index *c = lzma_index_init(NULL);
	printf("append to c: %d\n", lzma_index_append(c, NULL, 8, 5));
	fflush(stdout);
	r = lzma_index_cat(a, c, NULL);
	printf("cat S3: %d (expected %d = LZMA_DATA_ERROR)\n", r, LZMA_DATA_ERROR);
	printf("uncompressed_size = %" PRIu64 "\n", lzma_index_uncompressed_size(a));
	lzma_index_iter it; lzma_index_iter_init(&it, a);
	printf("locate(4): %d\n", lzma_index_iter_locate(&it, 4));
	printf(" -> stream %" PRIu64 " block %" PRIu64 " uncompressed_file_offset %" PRIu64 " size %" PRIu64 "\n",
			it.stream.number, it.block.number_in_file,
			it.block.uncompressed_file_offset, it.block.uncompressed_size);
	lzma_index_end(a, NULL);
	return 0;
}
