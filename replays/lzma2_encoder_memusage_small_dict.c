// Build: gcc -g -O1 -I/repo/src/liblzma/api lzma2_encoder_memusage_small_dict.c /repo/_build/liblzma.a -lpthread -o l2mem
// Run:   timeout 60 ./l2mem   (defect: lines marked UNDER and exit 1; fixed: estimate >= real everywhere, "ok")
//
// lzma_raw_encoder_memusage() / lzma_stream_encoder_mt_memusage() report LESS than what
// the encoder really allocates when LZMA2 dict_size < 64 KiB, because
// lzma_lzma2_encoder_memusage() doesn't apply the before_size adjustment that
// lzma2_encoder_init() makes (LZMA2_CHUNK_MAX - dict_size extra history).
#include <stdio.h>
#include <stdlib.h>
#include <string.h>
#include <stdint.h>
#include <unistd.h>
#include <pthread.h>
#include <lzma.h>

static pthread_mutex_t mu = PTHREAD_MUTEX_INITIALIZER;
static size_t cur, peak;
static void *my_alloc(void *o, size_t n, size_t s)
{
	(void)o; (void)n;
	size_t *p = malloc(s + 16);
	if (!p) return NULL;
	p[0] = s;
	pthread_mutex_lock(&mu); cur += s; if (cur > peak) peak = cur; pthread_mutex_unlock(&mu);
	return p + 2;
}
static void my_free(void *o, void *ptr)
{
	(void)o;
	if (!ptr) return;
	size_t *p = (size_t *)ptr - 2;
	pthread_mutex_lock(&mu); cur -= p[0]; pthread_mutex_unlock(&mu);
	free(p);
}

int main(void)
{
	alarm(60);
	static uint8_t in[1 << 20], out[2 << 20];
	for (size_t i = 0; i < sizeof in; i++) in[i] = (uint8_t)(i * 2654435761u >> 13);
	lzma_allocator al = { my_alloc, my_free, NULL };
	int bad = 0;

	for (uint32_t dict = 4096; dict <= (1u << 17); dict <<= 1) {
		lzma_options_lzma o; lzma_lzma_preset(&o, 0); o.dict_size = dict;
		lzma_filter f[2] = { { LZMA_FILTER_LZMA2, &o }, { LZMA_VLI_UNKNOWN, NULL } };

		// 1) raw encoder
		cur = peak = 0;
		lzma_stream s = LZMA_STREAM_INIT; s.allocator = &al;
		if (lzma_raw_encoder(&s, f) != LZMA_OK) return 1;
		size_t raw_peak = peak;
		lzma_end(&s);
		uint64_t raw_est = lzma_raw_encoder_memusage(f);

		// 2) MT stream encoder, 8 threads, 16 KiB blocks
		lzma_mt mt = { .threads = 8, .block_size = 16384, .filters = f, .check = LZMA_CHECK_CRC32 };
		uint64_t mt_est = lzma_stream_encoder_mt_memusage(&mt);
		cur = peak = 0;
		lzma_stream m = LZMA_STREAM_INIT; m.allocator = &al;
		if (lzma_stream_encoder_mt(&m, &mt) != LZMA_OK) return 1;
		m.next_in = in; m.avail_in = sizeof in; m.next_out = out; m.avail_out = sizeof out;
		lzma_ret r; while ((r = lzma_code(&m, LZMA_FINISH)) == LZMA_OK) ;
		if (r != LZMA_STREAM_END) return 1;
		size_t mt_peak = peak;
		lzma_end(&m);

		printf("dict %6u: raw estimate %8llu real %8zu%s | mt(8 thr) estimate %9llu real peak %9zu%s\n",
			dict, (unsigned long long)raw_est, raw_peak, raw_peak > raw_est ? " UNDER" : "",
			(unsigned long long)mt_est, mt_peak, mt_peak > mt_est ? " UNDER" : "");
		if (raw_peak > raw_est || mt_peak > mt_est) bad = 1;
	}
	printf(bad ? "FAIL: real allocation exceeds the reported memory usage\n" : "ok\n");
	return bad;
}
