// W=/tmp/probe/C; cc -g -I$W/src/liblzma/api repro.c $W/_asan/liblzma.a -fsanitize=address,undefined -lpthread -o repro && timeout 60 ./repro
//
// Heap buffer overflow in lzma_index_append() after decoding an Index that
// has zero Records (lzma_index_buffer_decode / lzma_index_decoder /
// lzma_file_info_decoder / lzma_stream_buffer... anything that goes through
// index_decoder.c).
#include <lzma.h>
#include <stdio.h>
#include <stdlib.h>
#include <unistd.h>

int main(int argc, char **argv)
{
	alarm(60);
	int variant = argc > 1 ? atoi(argv[1]) : 0;

	// Encode an empty Index with the library itself.
	lzma_index *empty = lzma_index_init(NULL);
	uint8_t buf[64];
	size_t out_pos = 0;
	if (lzma_index_buffer_encode(empty, buf, &out_pos, sizeof(buf)) != LZMA_OK)
		return 2;
	lzma_index_end(empty, NULL);
	printf("encoded empty Index: %zu bytes\n", out_pos);

	lzma_index *i = NULL;
	if (variant == 0) {
		// Single-call Index decoder
		uint64_t memlimit = UINT64_MAX;
		size_t in_pos = 0;
		lzma_ret r = lzma_index_buffer_decode(&i, &memlimit, NULL, buf, &in_pos, out_pos);
		printf("lzma_index_buffer_decode: %d\n", r);
	} else if (variant == 1) {
		// Multi-call Index decoder
		lzma_stream s = LZMA_STREAM_INIT;
		lzma_ret r = lzma_index_decoder(&s, &i, UINT64_MAX);
		s.next_in = buf; s.avail_in = out_pos;
		r = lzma_code(&s, LZMA_RUN);
		printf("lzma_index_decoder: %d\n", r);
		lzma_end(&s);
	} else {
		// lzma_file_info_decoder on an empty .xz Stream (like tests/files/good-0-empty.xz)
		uint8_t xz[256]; size_t xzlen = 0;
		lzma_ret r = lzma_easy_buffer_encode(6, LZMA_CHECK_CRC32, NULL, NULL, 0, xz, &xzlen, sizeof(xz));
		lzma_stream s = LZMA_STREAM_INIT;
		r = lzma_file_info_decoder(&s, &i, UINT64_MAX, xzlen);
		s.next_in = xz; s.avail_in = xzlen;
		r = lzma_code(&s, LZMA_RUN);
		printf("lzma_file_info_decoder: %d (xz size %zu)\n", r, xzlen);
		lzma_end(&s);
	}
	if (i == NULL)
		return 3;

	// Perfectly valid: append a Record to the decoded lzma_index.
	// (E.g. an application that appends a new Block to an existing Stream.)
	lzma_ret r = lzma_index_append(i, NULL, 100, 200);
	printf("lzma_index_append: %d\n", r);
	r = lzma_index_append(i, NULL, 100, 200);
	printf("lzma_index_append: %d\n", r);
	printf("blocks=%llu usize=%llu\n", (unsigned long long)lzma_index_block_count(i),
			(unsigned long long)lzma_index_uncompressed_size(i));
	lzma_index_end(i, NULL);
	return 0;
}
