/* C16: lzma_auto_decoder(LZMA_CONCATENATED) vs lzma_lzip_decoder(LZMA_CONCATENATED) on a valid .lz file followed by
 * foreign trailing data.  The .lz decoder stops at the end of the last member with LZMA_STREAM_END and leaves the trailing
 * bytes unread; the auto decoder must give the same result.
 * Build: cc -I/repo/src/liblzma/api auto_lzip_trailing.c <liblzma.a> -lpthread ; run: ./a.out /repo/tests/files/good-1-v1.lz */
#include <lzma.h>
#include <stdio.h>
#include <string.h>
static int run(int use_auto, const unsigned char *in, size_t n, size_t *consumed){
  lzma_stream s = LZMA_STREAM_INIT; unsigned char out[1<<16];
  lzma_ret r = use_auto ? lzma_auto_decoder(&s, UINT64_MAX, LZMA_CONCATENATED) : lzma_lzip_decoder(&s, UINT64_MAX, LZMA_CONCATENATED);
  if (r != LZMA_OK) return -1;
  s.next_in = in; s.avail_in = n; s.next_out = out; s.avail_out = sizeof out;
  do { r = lzma_code(&s, LZMA_FINISH); s.next_out = out; s.avail_out = sizeof out; } while (r == LZMA_OK);
  *consumed = s.total_in; lzma_end(&s); return (int)r;
}
int main(int argc, char **argv){
  static unsigned char buf[1<<16]; FILE *f = fopen(argv[1], "rb"); size_t n = fread(buf,1,sizeof buf - 64,f); fclose(f);
  size_t lz = n; memcpy(buf+n, "trailing data that is not .lz", 29); n += 29;
  size_t c1, c2; int r1 = run(0, buf, n, &c1), r2 = run(1, buf, n, &c2);
  printf(".lz file of %zu bytes + 29 bytes of trailing data\n", lz);
  printf("lzma_lzip_decoder: ret=%d (1 = LZMA_STREAM_END) consumed=%zu\n", r1, c1);
  printf("lzma_auto_decoder: ret=%d consumed=%zu\n", r2, c2);
  printf(r1 == r2 && c1 == c2 ? "SAME\n" : "DIFFERENT: the auto decoder does not give the result of the .lz decoder\n");
  return !(r1 == r2 && c1 == c2);
}
