#include <stdio.h>
#include <stdlib.h>
#include <string.h>
#include <lzma.h>
int main(void){
	size_t n=8<<20; uint8_t*in=malloc(n),*out=malloc(n+ (1<<20)),*dec=malloc(n);
	unsigned s=1; for(size_t i=0;i<n;i++){s=s*1103515245u+12345u; in[i]=s>>16;}
	lzma_mt mt={.threads=2,.block_size=4096,.preset=0,.check=LZMA_CHECK_CRC32};
	lzma_stream strm=LZMA_STREAM_INIT;
	lzma_stream_encoder_mt(&strm,&mt);
	strm.next_in=in;strm.avail_in=65536;strm.next_out=out;strm.avail_out=n;
	lzma_ret r; do r=lzma_code(&strm,LZMA_FINISH); while(r==LZMA_OK);
	printf("s1 ret=%d\n",r);
	mt.block_size=1<<20;
	lzma_stream_encoder_mt(&strm,&mt);
	strm.next_in=in;strm.avail_in=n;strm.next_out=out;strm.avail_out=n+(1<<20);
	do r=lzma_code(&strm,LZMA_FINISH); while(r==LZMA_OK);
	size_t osz=n+(1<<20)-strm.avail_out;
	printf("s2 ret=%d out=%zu\n",r,osz);
	lzma_end(&strm);
	uint64_t ml=UINT64_MAX; size_t ip=0,dp=0;
	r=lzma_stream_buffer_decode(&ml,0,NULL,out,&ip,osz,dec,&dp,n);
	printf("dec ret=%d %zu same=%d\n",r,dp,!memcmp(dec,in,n));
}
