// Threaded decoder never destroys coder->mutex / coder->cond (stream_decoder_mt_end()).
//
// Build + run (static liblzma.a from the worktree, any build type):
//   W=/tmp/probe/B; gcc -g -I$W/src/liblzma/api repro.c $W/_asan/liblzma.a -fsanitize=address,undefined -lpthread \
//     -Wl,--wrap=pthread_mutex_init,--wrap=pthread_mutex_destroy,--wrap=pthread_cond_init,--wrap=pthread_cond_destroy \
//     -o repro && timeout 60 ./repro
//
// Expected: every pthread_mutex_init()/pthread_cond_init() done by liblzma is paired with a destroy by the
// time lzma_end() returns. Observed: the decoder leaves 1 mutex + 1 cond undestroyed per lzma_stream_decoder_mt()
// instance (the encoder is balanced).
#include <lzma.h>
#include <pthread.h>
#include <stdio.h>
#include <stdlib.h>
#include <string.h>
#include <unistd.h>

static int mi, md, ci, cd;
int __real_pthread_mutex_init(pthread_mutex_t *, const pthread_mutexattr_t *);
int __real_pthread_mutex_destroy(pthread_mutex_t *);
int __real_pthread_cond_init(pthread_cond_t *, const pthread_condattr_t *);
int __real_pthread_cond_destroy(pthread_cond_t *);
int __wrap_pthread_mutex_init(pthread_mutex_t *m, const pthread_mutexattr_t *a) { __atomic_add_fetch(&mi, 1, __ATOMIC_SEQ_CST); return __real_pthread_mutex_init(m, a); }
int __wrap_pthread_mutex_destroy(pthread_mutex_t *m) { __atomic_add_fetch(&md, 1, __ATOMIC_SEQ_CST); return __real_pthread_mutex_destroy(m); }
int __wrap_pthread_cond_init(pthread_cond_t *c, const pthread_condattr_t *a) { __atomic_add_fetch(&ci, 1, __ATOMIC_SEQ_CST); return __real_pthread_cond_init(c, a); }
int __wrap_pthread_cond_destroy(pthread_cond_t *c) { __atomic_add_fetch(&cd, 1, __ATOMIC_SEQ_CST); return __real_pthread_cond_destroy(c); }

static uint8_t plain[300000], comp[400000], out[300000];

int main(void)
{
	alarm(60);
	for (size_t i = 0; i < sizeof plain; i++) plain[i] = (uint8_t)(i * 7 + i / 1000);

	// --- encoder: balanced
	lzma_stream s = LZMA_STREAM_INIT;
	lzma_mt emt = { .threads = 3, .block_size = 50000, .preset = 0, .check = LZMA_CHECK_CRC32 };
	if (lzma_stream_encoder_mt(&s, &emt) != LZMA_OK) return 2;
	s.next_in = plain; s.avail_in = sizeof plain; s.next_out = comp; s.avail_out = sizeof comp;
	lzma_ret r; while ((r = lzma_code(&s, LZMA_FINISH)) == LZMA_OK) ;
	if (r != LZMA_STREAM_END) return 3;
	size_t clen = sizeof comp - s.avail_out;
	lzma_end(&s);
	printf("encoder : mutex init=%d destroy=%d   cond init=%d destroy=%d\n", mi, md, ci, cd);
	int e_unbalanced = (mi != md) || (ci != cd);
	mi = md = ci = cd = 0;

	// --- decoder: 1 mutex + 1 cond leaked per instance
	int N = 10;
	for (int k = 0; k < N; k++) {
		lzma_stream d = LZMA_STREAM_INIT;
		lzma_mt dmt = { .threads = 3, .memlimit_threading = UINT64_MAX, .memlimit_stop = UINT64_MAX };
		if (lzma_stream_decoder_mt(&d, &dmt) != LZMA_OK) return 4;
		d.next_in = comp; d.avail_in = clen; d.next_out = out; d.avail_out = sizeof out;
		while ((r = lzma_code(&d, LZMA_FINISH)) == LZMA_OK) ;
		if (r != LZMA_STREAM_END || memcmp(out, plain, sizeof plain)) return 5;
		lzma_end(&d);
	}
	printf("decoder : mutex init=%d destroy=%d   cond init=%d destroy=%d   (%d instances)\n", mi, md, ci, cd, N);
	if (mi != md || ci != cd) {
		printf("BUG: %d mutexes and %d condition variables were never destroyed\n", mi - md, ci - cd);
		return 1;
	}
	return e_unbalanced;
}
