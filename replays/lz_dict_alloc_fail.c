// probe: alone decoder, dict A ok, dict B alloc fails, dict A again
#include <lzma.h>
#include <stdio.h>
#include <stdlib.h>
#include <string.h>
static int fail_big = 0;
static void *my_alloc(void *o, size_t n, size_t s){ (void)o; size_t t=n*s; if (fail_big && t > 1000000) return NULL; return malloc(t);} 
static void my_free(void *o, void *p){(void)o; free(p);} 
static lzma_allocator al = { my_alloc, my_free, NULL };
static size_t enc(uint32_t dict, uint8_t *out, size_t outsz){
  lzma_options_lzma o; lzma_lzma_preset(&o, 0); o.dict_size = dict;
  lzma_stream s = LZMA_STREAM_INIT; if (lzma_alone_encoder(&s,&o)!=LZMA_OK) abort();
  static uint8_t in[1000]; memset(in,'a',sizeof in);
  s.next_in=in; s.avail_in=sizeof in; s.next_out=out; s.avail_out=outsz;
  if (lzma_code(&s,LZMA_FINISH)!=LZMA_STREAM_END) abort();
  size_t n = s.total_out; lzma_end(&s); return n;
}
static lzma_ret dec(lzma_stream *s, uint8_t *in, size_t n){
  lzma_ret r = lzma_alone_decoder(s, UINT64_MAX); if (r) return r;
  static uint8_t out[2000]; s->next_in=in; s->avail_in=n; s->next_out=out; s->avail_out=sizeof out;
  do r = lzma_code(s, LZMA_FINISH); while (r==LZMA_OK);
  return r;
}
int main(void){ setvbuf(stdout,NULL,_IONBF,0);
  static uint8_t a[4096], b[4096]; size_t na = enc(1<<16,a,sizeof a), nb = enc(1<<21,b,sizeof b);
  lzma_stream s = LZMA_STREAM_INIT; s.allocator=&al;
  printf("A: %d\n", dec(&s,a,na));
  fail_big=1; printf("B(fail): %d\n", dec(&s,b,nb)); fail_big=0;
  printf("A again: %d\n", dec(&s,a,na)); fflush(stdout);
  lzma_end(&s); return 0; }
