#include <lzma.h>
#include <stdio.h>
#include <stdlib.h>
int main(int argc,char**argv){
  FILE*f=fopen(argv[1],"rb"); static unsigned char buf[1<<16]; size_t n=fread(buf,1,sizeof buf,f); fclose(f);
  int bad=0;
  for(size_t cut=0;cut<=n;cut++){
    lzma_stream s=LZMA_STREAM_INIT; if(lzma_alone_decoder(&s,UINT64_MAX)!=LZMA_OK) return 2;
    static unsigned char out[1<<16]; s.next_out=out; s.avail_out=sizeof out;
    s.next_in=buf; s.avail_in=cut; lzma_ret r=lzma_code(&s,LZMA_RUN);
    if(r==LZMA_OK||r==LZMA_BUF_ERROR){ s.avail_in=n-cut; r=lzma_code(&s,LZMA_FINISH);} 
    if(r!=LZMA_STREAM_END){printf("cut=%zu ret=%d\n",cut,r);bad++;}
    lzma_end(&s);
  }
  printf("bad=%d of %zu\n",bad,n+1); return bad!=0;
}
