#!/bin/sh
# C20: xzgrep option ending with a single quote (fixed by 8f23b45).
# usage: PATH=<dir with xz and xzgrep>:$PATH sh xzgrep-quote.sh
# Before the fix:  the first command fails with "Unterminated quoted string" (exit 2) although the pattern ' occurs,
#                  and the second command creates the file ./pwned.
d=$(mktemp -d) || exit 2
cd "$d" || exit 2
printf "it's here\nplain\n" > a.txt
xz -k a.txt
xzgrep "-e'" a.txt.xz; echo "exit status (expected 0): $?"
xzgrep "-e'" "-e;touch pwned;'" a.txt.xz > /dev/null 2>&1
if test -e pwned; then echo "VULNERABLE: text between the two patterns was executed"; else echo "ok: nothing executed"; fi
cd / && rm -rf "$d"
