/* LZMA1/LZMA2 filter with options == NULL (an invalid chain that the encoder init functions answer with LZMA_PROG_ERROR):
 * the memusage / block-size helpers and the decoder init functions dereference the NULL pointer, and so does everything that
 * validates a chain through them -- in particular lzma_filters_update() on a running encoder (C12: "a refused change leaves
 * the encoder usable").
 * Build: cc -O1 -I/repo/src/liblzma/api null_lzma_options.c /repo/_build/liblzma.a -lpthread
 * Exit 1 if any call is killed by a signal. */
#include <lzma.h>
#include <stdio.h>
#include <unistd.h>
#include <string.h>
#include <sys/wait.h>
static lzma_filter f[2] = { { LZMA_FILTER_LZMA2, NULL }, { LZMA_VLI_UNKNOWN, NULL } };
static lzma_filter f1[2] = { { LZMA_FILTER_LZMA1, NULL }, { LZMA_VLI_UNKNOWN, NULL } };
static int bad;
static void run(const char *name, int which)
{
	fflush(stdout);
	pid_t p = fork();
	if (p == 0) {
		lzma_stream s = LZMA_STREAM_INIT;
		lzma_options_lzma o; lzma_lzma_preset(&o, 0);
		lzma_filter ok[2] = { { LZMA_FILTER_LZMA2, &o }, { LZMA_VLI_UNKNOWN, NULL } };
		lzma_mt mt = { .threads = 2, .filters = f, .check = LZMA_CHECK_CRC32 };
		unsigned long long r = 0;
		switch (which) {
		case 0: r = lzma_raw_encoder(&s, f); break;
		case 1: r = lzma_raw_decoder(&s, f); break;
		case 2: r = lzma_raw_decoder(&s, f1); break;
		case 4: r = lzma_raw_encoder_memusage(f); break;
		case 5: r = lzma_raw_decoder_memusage(f); break;
		case 6: r = lzma_mt_block_size(f); break;
		case 7: r = lzma_stream_encoder_mt(&s, &mt); break;
		case 8: r = lzma_stream_encoder_mt_memusage(&mt); break;
		case 9: {
			if (lzma_stream_encoder(&s, ok, LZMA_CHECK_CRC32)) _exit(3);
			static uint8_t in[1000], out[4000];
			memset(in, 'a', sizeof(in));
			s.next_in = in; s.avail_in = sizeof(in); s.next_out = out; s.avail_out = sizeof(out);
			if (lzma_code(&s, LZMA_FULL_FLUSH) != LZMA_STREAM_END) _exit(4);
			r = lzma_filters_update(&s, f);
			/* the refused change must leave the encoder usable */
			s.next_in = in; s.avail_in = sizeof(in);
			lzma_ret r2 = lzma_code(&s, LZMA_FINISH);
			printf("%-40s returned %llu, then lzma_code(FINISH) = %d\n", name, r, r2);
			fflush(stdout);
			_exit(r == LZMA_OK || r2 != LZMA_STREAM_END ? 5 : 0);
		}
		}
		printf("%-40s returned %llu\n", name, r);
		fflush(stdout);
		_exit(0);
	}
	int st; waitpid(p, &st, 0);
	if (WIFSIGNALED(st)) { printf("%-40s KILLED by signal %d\n", name, WTERMSIG(st)); bad = 1; }
	else if (WEXITSTATUS(st) != 0) { printf("%-40s child exit %d\n", name, WEXITSTATUS(st)); bad = 1; }
}
int main(void)
{
	run("lzma_raw_encoder", 0); run("lzma_raw_decoder (LZMA2)", 1); run("lzma_raw_decoder (LZMA1)", 2);
	run("lzma_raw_encoder_memusage", 4); run("lzma_raw_decoder_memusage", 5); run("lzma_mt_block_size", 6);
	run("lzma_stream_encoder_mt", 7); run("lzma_stream_encoder_mt_memusage", 8);
	run("lzma_filters_update on a running encoder", 9);
	printf(bad ? "RESULT: a chain with NULL LZMA options crashes instead of being refused\n" : "RESULT: every call refuses the chain\n");
	return bad;
}
