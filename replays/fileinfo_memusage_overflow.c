// Build/run (release, assertions off):
//   W=/tmp/probe/I; gcc -O2 -I$W/src/liblzma/api repro.c $W/_rel/liblzma.a -lpthread -o repro_rel && timeout 60 ./repro_rel
// Build/run (debug, assertions on -> abort in file_info_decoder_memconfig):
//   W=/tmp/probe/I; clang -g -fsanitize=address,undefined -I$W/src/liblzma/api repro.c $W/_asan/liblzma.a -lpthread -o repro_dbg && timeout 60 ./repro_dbg
//
// lzma_file_info_decoder() on a two-Stream .xz file whose FIRST Stream has an
// Index with a huge Number of Records.  After lzma_code() returns
// LZMA_MEMLIMIT_ERROR, lzma_memusage() reports a tiny wrapped-around value and
// lzma_memlimit_set() with any value >= that returns LZMA_PROG_ERROR
// (assert(0) in debug builds) instead of LZMA_MEMLIMIT_ERROR.
#include <lzma.h>
#include <stdio.h>
#include <string.h>
#include <unistd.h>

int main(void)
{
	alarm(30);
	uint8_t file[128];
	size_t n = 0;
	lzma_stream_flags sf = { .version = 0, .check = LZMA_CHECK_CRC32 };

	// Stream 1: Header + broken Index (Number of Records = 2^63-1) + Footer
	(void)!lzma_stream_header_encode(&sf, file + n); n += 12;
	static const uint8_t bad_index[12] = {
		0x00, 0xFF, 0xFF, 0xFF, 0xFF, 0xFF, 0xFF, 0xFF, 0xFF, 0x7F, 0, 0 };
	memcpy(file + n, bad_index, 12); n += 12;
	sf.backward_size = 12;
	(void)!lzma_stream_footer_encode(&sf, file + n); n += 12;

	// Stream 2: a valid empty Stream
	(void)!lzma_stream_header_encode(&sf, file + n); n += 12;
	static const uint8_t empty_index[8] = { 0x00, 0x00, 0x00, 0x00, 0x1C, 0xDF, 0x44, 0x21 };
	memcpy(file + n, empty_index, 8); n += 8;
	sf.backward_size = 8;
	(void)!lzma_stream_footer_encode(&sf, file + n); n += 12;

	lzma_stream strm = LZMA_STREAM_INIT;
	lzma_index *idx = NULL;
	lzma_ret ret = lzma_file_info_decoder(&strm, &idx, 1 << 20, n);
	printf("init: %d\n", ret);

	uint64_t pos = 0;
	for (;;) {
		if (strm.avail_in == 0 && pos < n) {
			strm.next_in = file + pos;
			strm.avail_in = n - pos;
			pos = n;
		}
		ret = lzma_code(&strm, LZMA_RUN);
		if (ret == LZMA_SEEK_NEEDED) {
			pos = strm.seek_pos;
			strm.avail_in = 0;
			continue;
		}
		if (ret != LZMA_OK)
			break;
	}
	printf("lzma_code: %d (LZMA_MEMLIMIT_ERROR = %d)\n", ret, LZMA_MEMLIMIT_ERROR);

	uint64_t mu = lzma_memusage(&strm);
	printf("lzma_memusage: %llu  (memlimit_get: %llu)\n",
			(unsigned long long)mu, (unsigned long long)lzma_memlimit_get(&strm));
	fflush(stdout);

	// The application does what the API tells it to: raise the limit to
	// at least lzma_memusage() and try again.
	ret = lzma_memlimit_set(&strm, mu + (64 << 20));
	printf("lzma_memlimit_set(memusage + 64 MiB): %d (LZMA_PROG_ERROR = %d)\n", ret, LZMA_PROG_ERROR);
	ret = lzma_memlimit_set(&strm, UINT64_MAX - 1);
	printf("lzma_memlimit_set(UINT64_MAX - 1): %d\n", ret);
	lzma_end(&strm);
	return 0;
}
