// W=/tmp/probe/C
// Release build: cc -g -I$W/src/liblzma/api repro.c $W/_rel/liblzma.a -lpthread -o repro_rel && timeout 60 ./repro_rel
// Debug build:   cc -g -I$W/src/liblzma/api repro.c $W/_asan/liblzma.a -fsanitize=address,undefined -lpthread -o repro_dbg && timeout 60 ./repro_dbg
//
// lzma_auto_decoder(): after re-initializing an already used lzma_stream,
// lzma_memlimit_get()/lzma_memusage()/lzma_memlimit_set() talk to the stale
// sub-decoder of the *previous* file instead of the new settings.
#include <lzma.h>
#include <stdio.h>
#include <string.h>
#include <unistd.h>

int main(void)
{
	alarm(60); setvbuf(stdout, NULL, _IONBF, 0);
	static uint8_t data[50000], xz[60000], out[50000];
	for (size_t i = 0; i < sizeof data; i++) data[i] = (uint8_t)(i % 251);
	size_t xz_size = 0;
	if (lzma_easy_buffer_encode(6, LZMA_CHECK_CRC32, NULL, data, sizeof data, xz, &xz_size, sizeof xz) != LZMA_OK) return 2;

	lzma_stream s = LZMA_STREAM_INIT;

	// First use: 100 MiB limit, decode one .xz file (preset 6 => ~8 MiB needed)
	if (lzma_auto_decoder(&s, 100 << 20, 0) != LZMA_OK) return 2;
	printf("1st init: memlimit_get=%llu memusage=%llu\n",
			(unsigned long long)lzma_memlimit_get(&s), (unsigned long long)lzma_memusage(&s));
	s.next_in = xz; s.avail_in = xz_size; s.next_out = out; s.avail_out = sizeof out;
	printf("decode: %d\n", lzma_code(&s, LZMA_FINISH));

	// Re-initialize the same lzma_stream for the next file with a 4 MiB limit.
	if (lzma_auto_decoder(&s, 4 << 20, 0) != LZMA_OK) return 2;
	printf("2nd init (memlimit 4 MiB = %u):\n", 4u << 20);
	printf("  lzma_memlimit_get = %llu   (expected 4194304)\n", (unsigned long long)lzma_memlimit_get(&s));
	printf("  lzma_memusage     = %llu   (expected the same small base value as after the 1st init)\n", (unsigned long long)lzma_memusage(&s));
	printf("  lzma_memlimit_set(2 MiB) = %d (expected 0 = LZMA_OK, nothing has been decoded yet)\n", lzma_memlimit_set(&s, 2 << 20));
	printf("  lzma_memlimit_get = %llu\n", (unsigned long long)lzma_memlimit_get(&s));

	// The limit that is really in effect for the new file:
	s.next_in = xz; s.avail_in = xz_size; s.next_out = out; s.avail_out = sizeof out;
	printf("  decode with the new limit: %d (6 = LZMA_MEMLIMIT_ERROR)\n", lzma_code(&s, LZMA_FINISH));
	lzma_end(&s);
	return 0;
}
