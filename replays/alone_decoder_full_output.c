// W=/tmp/probe/C; cc -g -I$W/src/liblzma/api repro.c $W/_asan/liblzma.a -fsanitize=address,undefined -lpthread -o repro && timeout 60 ./repro
//
// lzma_alone_decoder() (and lzma_auto_decoder() on .lzma input) cannot make
// any progress when avail_out == 0, even when no output space is needed:
//  (a) header bytes are not consumed,
//  (b) the end-of-payload marker after the last output byte is not consumed,
// so decoding into a buffer of exactly the right size ends with
// LZMA_BUF_ERROR instead of LZMA_STREAM_END. Every other decoder in liblzma
// (.xz, .lz, raw LZMA1/LZMA2) returns LZMA_STREAM_END in the same situation.
#include <lzma.h>
#include <stdio.h>
#include <string.h>
#include <unistd.h>

static const char *rs(lzma_ret r) {
	static const char *n[] = {"OK","STREAM_END","NO_CHECK","UNSUPPORTED_CHECK","GET_CHECK","MEM_ERROR","MEMLIMIT_ERROR","FORMAT_ERROR","OPTIONS_ERROR","DATA_ERROR","BUF_ERROR","PROG_ERROR","SEEK_NEEDED"};
	return n[r];
}

#define N 1000

static void decode_exact(const char *name, lzma_stream *s, const uint8_t *in, size_t in_size, size_t out_size)
{
	static uint8_t out[N + 1];
	// The input arrives in two pieces (e.g. two read()s): everything except
	// the last 4 bytes first, then the rest.
	const size_t tail = in_size > 4 ? 4 : 0;
	s->next_in = in; s->avail_in = in_size - tail;
	s->next_out = out; s->avail_out = out_size;   // exactly the uncompressed size
	lzma_ret r; int calls = 0;
	do { r = lzma_code(s, LZMA_RUN); calls++; } while (r == LZMA_OK && s->avail_in > 0);
	if (r == LZMA_OK) {
		s->avail_in += tail;
		do { r = lzma_code(s, LZMA_FINISH); calls++; } while (r == LZMA_OK && calls < 10);
	}
	printf("%-34s out_size=%4zu: %s after %d calls, total_out=%llu, unread input=%zu\n",
			name, out_size, rs(r), calls, (unsigned long long)s->total_out, s->avail_in);
}

int main(void)
{
	alarm(60);
	static uint8_t data[N], al[2 * N], xz[2 * N], al_empty[64];
	for (size_t i = 0; i < N; i++) data[i] = (uint8_t)((i * i) >> 3);

	lzma_options_lzma opt; lzma_lzma_preset(&opt, 1);
	lzma_stream s = LZMA_STREAM_INIT;

	// .lzma file as written by liblzma/xz: unknown size + end marker
	if (lzma_alone_encoder(&s, &opt) != LZMA_OK) return 2;
	s.next_in = data; s.avail_in = N; s.next_out = al; s.avail_out = sizeof al;
	if (lzma_code(&s, LZMA_FINISH) != LZMA_STREAM_END) return 2;
	size_t al_size = s.total_out;
	// empty .lzma
	if (lzma_alone_encoder(&s, &opt) != LZMA_OK) return 2;
	s.next_in = NULL; s.avail_in = 0; s.next_out = al_empty; s.avail_out = sizeof al_empty;
	if (lzma_code(&s, LZMA_FINISH) != LZMA_STREAM_END) return 2;
	size_t al_empty_size = s.total_out;
	// .xz for comparison
	size_t xz_size = 0;
	if (lzma_easy_buffer_encode(1, LZMA_CHECK_CRC32, NULL, data, N, xz, &xz_size, sizeof xz) != LZMA_OK) return 2;

	if (lzma_stream_decoder(&s, UINT64_MAX, 0)) return 2;
	decode_exact(".xz  lzma_stream_decoder", &s, xz, xz_size, N);

	lzma_filter f[2] = {{LZMA_FILTER_LZMA1, &opt}, {LZMA_VLI_UNKNOWN, NULL}};
	if (lzma_raw_decoder(&s, f)) return 2;
	decode_exact("raw LZMA1 (same payload)", &s, al + 13, al_size - 13, N);

	if (lzma_alone_decoder(&s, UINT64_MAX)) return 2;
	decode_exact(".lzma lzma_alone_decoder", &s, al, al_size, N);
	if (lzma_auto_decoder(&s, UINT64_MAX, 0)) return 2;
	decode_exact(".lzma lzma_auto_decoder", &s, al, al_size, N);

	if (lzma_alone_decoder(&s, UINT64_MAX)) return 2;
	decode_exact("empty .lzma lzma_alone_decoder", &s, al_empty, al_empty_size, 0);
	if (lzma_raw_decoder(&s, f)) return 2;
	decode_exact("empty raw LZMA1 (same payload)", &s, al_empty + 13, al_empty_size - 13, 0);

	// sanity: one extra byte of output space makes it work
	if (lzma_alone_decoder(&s, UINT64_MAX)) return 2;
	decode_exact(".lzma alone_decoder, N+1 space", &s, al, al_size, N + 1);
	lzma_end(&s);
	return 0;
}
