/* Replay for C10/C11 (#37): lzma_easy_encoder() with an unsupported preset on a handle that is in use.
 * container.h: "If initialization fails (return value is not LZMA_OK), all the memory allocated for *strm by liblzma
 * is always freed. Thus, there is no need to call lzma_end() after failed initialization."
 *
 * build: cc -I/repo/src/liblzma/api easy_encoder_failed_init_keeps_coder.c /repo/_build/liblzma.a -lpthread -o easyfail
 * run:   ./easyfail
 * defect: after the failed call the old decoder is still allocated (live blocks > 0) and lzma_code() keeps decoding the
 *         old stream; fixed: nothing is allocated and lzma_code() returns LZMA_PROG_ERROR (11). */
#include <lzma.h>
#include <stdio.h>
#include <stdlib.h>
#include <unistd.h>

static long live;
static void *a_alloc(void *o, size_t n, size_t s) { (void)o; (void)n; void *p = malloc(s); if (p) ++live; return p; }
static void a_free(void *o, void *p) { (void)o; if (p) { --live; free(p); } }

int main(void)
{
	alarm(20);
	static uint8_t plain[1000], xz[2000], out[2000];
	size_t n = 0;
	if (lzma_easy_buffer_encode(1, LZMA_CHECK_CRC32, NULL, plain, sizeof(plain), xz, &n, sizeof(xz)) != LZMA_OK)
		return 2;

	lzma_allocator al = { a_alloc, a_free, NULL };
	lzma_stream s = LZMA_STREAM_INIT;
	s.allocator = &al;
	if (lzma_stream_decoder(&s, UINT64_MAX, 0) != LZMA_OK)
		return 2;
	s.next_in = xz; s.avail_in = 30; s.next_out = out; s.avail_out = sizeof(out);
	(void)!lzma_code(&s, LZMA_RUN);
	printf("decoder in use: %ld live blocks\n", live);

	lzma_ret r = lzma_easy_encoder(&s, 99, LZMA_CHECK_CRC32);   /* unsupported preset */
	printf("lzma_easy_encoder(preset 99) = %d (8 = LZMA_OPTIONS_ERROR); live blocks after the failed init: %ld\n", (int)r, live);
	int bad = live != 0;
	s.next_in = xz + 30; s.avail_in = n - 30;
	lzma_ret r2 = lzma_code(&s, LZMA_RUN);
	printf("lzma_code() after the failed init = %d (expected 11 = LZMA_PROG_ERROR), total_out = %llu\n",
			(int)r2, (unsigned long long)s.total_out);
	if (r2 != LZMA_PROG_ERROR) bad = 1;
	lzma_end(&s);
	printf(bad ? "RESULT: DEFECT\n" : "RESULT: ok\n");
	return bad;
}
