#!/bin/bash
# Run: bash repro.sh           (uses /tmp/probe/D/_rel/xz; override with XZ=...)
# xz --files/--files0: a progress signal (SIGUSR1/SIGALRM/SIGINFO) that interrupts
# fgetc() in read_name() makes xz drop all remaining file names and spin forever.
XZ=${XZ:-/tmp/probe/D/_rel/xz}
d=$(mktemp -d); cd "$d" || exit 1
echo d1 > f1; echo d2 > f2
mkfifo names
$XZ --files=names & p=$!
( sleep 8; kill -9 $p 2>/dev/null && echo "WATCHDOG: xz was still running after 8 s -> killed (HANG)" ) & w=$!
exec 3>names                 # xz now blocks in fgetc() waiting for the first name
sleep 0.5
kill -USR1 $p                # documented "print progress" signal; SIGALRM from 'xz -v' does the same
sleep 0.3
printf 'f1\nf2\n' >&3        # two perfectly valid names
sleep 0.3
exec 3>&-                    # EOF
wait $p; echo "xz exit status: $?"
kill $w 2>/dev/null
echo "directory contents (expected f1.xz f2.xz):"; ls
grep -E '^(State|voluntary|nonvoluntary)' /proc/$p/status 2>/dev/null
cd /; rm -rf "$d"
