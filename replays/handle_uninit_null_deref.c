/* Replay for C11: lzma_filters_update() and lzma_get_progress() on a handle that only holds
 * LZMA_STREAM_INIT (or that was ended with lzma_end()).  Both are documented as accepting a
 * "lzma_stream that is at least initialized with LZMA_STREAM_INIT"; strm->internal is NULL then.
 *
 * build: cc -I/repo/src/liblzma/api handle_uninit_null_deref.c /repo/_build/liblzma.a -lpthread -o handle_uninit
 * run:   ./handle_uninit
 * defect: both calls dereference strm->internal (SIGSEGV).
 * fixed:  lzma_filters_update() returns LZMA_PROG_ERROR (11); lzma_get_progress() reports total_in/total_out. */
#include <lzma.h>
#include <stdio.h>
#include <signal.h>
#include <setjmp.h>
#include <unistd.h>

static sigjmp_buf jb;
static void on_segv(int s) { (void)s; siglongjmp(jb, 1); }

int main(void)
{
	signal(SIGSEGV, on_segv);
	alarm(20);
	int bad = 0;
	lzma_options_lzma opt;
	lzma_lzma_preset(&opt, 1);
	lzma_filter f[2] = { { LZMA_FILTER_LZMA2, &opt }, { LZMA_VLI_UNKNOWN, NULL } };

	lzma_stream a = LZMA_STREAM_INIT;
	if (sigsetjmp(jb, 1) == 0) {
		lzma_ret r = lzma_filters_update(&a, f);
		printf("lzma_filters_update(LZMA_STREAM_INIT handle) = %d (expected 11 = LZMA_PROG_ERROR)\n", (int)r);
		if (r != LZMA_PROG_ERROR) bad = 1;
	} else {
		printf("lzma_filters_update(LZMA_STREAM_INIT handle): SIGSEGV\n");
		bad = 1;
	}

	lzma_stream b = LZMA_STREAM_INIT;
	uint64_t pin = 7, pout = 7;
	if (sigsetjmp(jb, 1) == 0) {
		lzma_get_progress(&b, &pin, &pout);
		printf("lzma_get_progress(LZMA_STREAM_INIT handle) = %llu/%llu (expected 0/0)\n",
				(unsigned long long)pin, (unsigned long long)pout);
		if (pin != 0 || pout != 0) bad = 1;
	} else {
		printf("lzma_get_progress(LZMA_STREAM_INIT handle): SIGSEGV\n");
		bad = 1;
	}

	/* the same after lzma_end() */
	lzma_stream c = LZMA_STREAM_INIT;
	if (lzma_easy_encoder(&c, 1, LZMA_CHECK_CRC32) != LZMA_OK) return 2;
	lzma_end(&c);
	if (sigsetjmp(jb, 1) == 0) {
		lzma_ret r = lzma_filters_update(&c, f);
		printf("lzma_filters_update(after lzma_end) = %d (expected 11)\n", (int)r);
		if (r != LZMA_PROG_ERROR) bad = 1;
	} else {
		printf("lzma_filters_update(after lzma_end): SIGSEGV\n");
		bad = 1;
	}
	printf(bad ? "RESULT: DEFECT\n" : "RESULT: ok\n");
	return bad;
}
