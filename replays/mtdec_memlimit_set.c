// lzma_memlimit_set() on the threaded decoder lowers memlimit_stop but leaves memlimit_threading above it,
// so the "never exceeded" limit is exceeded many times over without LZMA_MEMLIMIT_ERROR.
//
//   W=/tmp/probe/B; gcc -g -I$W/src/liblzma/api repro.c $W/_asan/liblzma.a -fsanitize=address,undefined -lpthread -o repro \
//      && timeout 60 ./repro
#include <lzma.h>
#include <stdio.h>
#include <stdlib.h>
#include <string.h>
#include <unistd.h>
#include <inttypes.h>

#define N (16u << 20)
static uint8_t *plain, *comp, *out;

static uint64_t decode(size_t clen, uint64_t limit_at_init, uint64_t limit_via_set, lzma_ret *final)
{
	lzma_stream d = LZMA_STREAM_INIT;
	lzma_mt dmt = { .threads = 8, .memlimit_threading = limit_at_init, .memlimit_stop = limit_at_init };
	if (lzma_stream_decoder_mt(&d, &dmt) != LZMA_OK) exit(4);
	if (limit_via_set) {
		// Valid at any time; memory usage is still LZMA_MEMUSAGE_BASE here so the small limit is accepted.
		lzma_ret r = lzma_memlimit_set(&d, limit_via_set);
		if (r != LZMA_OK) { printf("memlimit_set failed %d\n", r); exit(5); }
	}
	uint64_t peak = 0;
	size_t ipos = 0;
	d.next_out = out; d.avail_out = N;
	lzma_ret r = LZMA_OK;
	while (r == LZMA_OK) {
		if (d.avail_in == 0 && ipos < clen) {
			size_t c = clen - ipos < 65536 ? clen - ipos : 65536;
			d.next_in = comp + ipos; d.avail_in = c; ipos += c;
		}
		r = lzma_code(&d, ipos == clen ? LZMA_FINISH : LZMA_RUN);
		uint64_t mu = lzma_memusage(&d);
		if (mu > peak) peak = mu;
	}
	*final = r;
	printf("  limit reported by lzma_memlimit_get(): %" PRIu64 "\n", lzma_memlimit_get(&d));
	lzma_end(&d);
	return peak;
}

int main(void)
{
	alarm(60);
	plain = malloc(N); comp = malloc(N + N / 2); out = malloc(N);
	for (size_t i = 0; i < N; i++) plain[i] = (uint8_t)((i * 7 + i / 1000) ^ (i >> 11));
	lzma_stream s = LZMA_STREAM_INIT;
	lzma_mt emt = { .threads = 4, .block_size = 1 << 20, .preset = 1, .check = LZMA_CHECK_CRC32 };
	if (lzma_stream_encoder_mt(&s, &emt) != LZMA_OK) return 2;
	s.next_in = plain; s.avail_in = N; s.next_out = comp; s.avail_out = N + N / 2;
	lzma_ret r; while ((r = lzma_code(&s, LZMA_FINISH)) == LZMA_OK) ;
	if (r != LZMA_STREAM_END) return 3;
	size_t clen = N + N / 2 - s.avail_out;
	lzma_end(&s);

	const uint64_t LIM = 3u << 20; // 3 MiB: enough for one LZMA2 decoder with 1 MiB dict in direct mode

	printf("A) memlimit_stop = memlimit_threading = 3 MiB given at init:\n");
	uint64_t pa = decode(clen, LIM, 0, &r);
	printf("  result %d, peak lzma_memusage() = %" PRIu64 "\n", r, pa);

	printf("B) init with 1 GiB limits, then lzma_memlimit_set(strm, 3 MiB) before the first lzma_code():\n");
	uint64_t pb = decode(clen, 1u << 30, LIM, &r);
	printf("  result %d, peak lzma_memusage() = %" PRIu64 "\n", r, pb);

	if (pb > LIM) {
		printf("BUG: memory usage %" PRIu64 " exceeded the limit %" PRIu64 " set with lzma_memlimit_set() (%.1fx), no LZMA_MEMLIMIT_ERROR\n",
			pb, LIM, (double)pb / LIM);
		return 1;
	}
	return 0;
}
