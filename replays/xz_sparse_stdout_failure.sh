#!/bin/bash
# Run: bash repro.sh     (uses /tmp/probe/D/_rel/xz and xzdec; override with XZ=, XZDEC=)
# "xz -dc damaged.xz > file": successfully decoded zero bytes that precede the
# error are silently dropped when stdout is a regular file (sparse mode).
XZ=${XZ:-/tmp/probe/D/_rel/xz}; XZDEC=${XZDEC:-/tmp/probe/D/_rel/xzdec}
d=$(mktemp -d); cd "$d" || exit 1
# 8 KiB of data followed by 1 MiB of zeros (a disk image, tar padding, ...)
( head -c 8192 /dev/urandom; head -c 1048576 /dev/zero ) > orig
$XZ -kc orig > good.xz
s=$(stat -c %s good.xz); head -c $((s-5)) good.xz > damaged.xz     # truncated Stream Footer
timeout 60 $XZ -dc damaged.xz             > out.sparse   ; echo "xz -dc            rc=$?"
timeout 60 $XZ -dc --no-sparse damaged.xz > out.nosparse ; echo "xz -dc --no-sparse rc=$?"
timeout 60 $XZ -dc damaged.xz | cat       > out.pipe     ; echo "xz -dc | cat       rc=${PIPESTATUS[0]}"
timeout 60 $XZDEC damaged.xz              > out.xzdec    ; echo "xzdec              rc=$?"
ls -l orig out.*
cmp out.nosparse orig && echo "out.nosparse == orig (all 1056768 bytes were decoded before the error)"
cmp out.sparse orig
cd /; rm -rf "$d"
