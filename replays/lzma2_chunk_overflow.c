// LZMA2 encoder writes an "uncompressed chunk" that is larger than 64 KiB
// (65537 bytes): the 16-bit size field in the chunk header wraps around and
// the .xz/LZMA2 output is silently corrupt (release build) or an assertion
// fails (debug build).
//
// Build + run against the unmodified tree (release build: silent corruption):
//   gcc -O2 -I/tmp/probe/F/src/liblzma/api repro.c /tmp/probe/F/_rel/liblzma.a -lpthread -o repro_rel && timeout 120 ./repro_rel
// Debug build (assertions enabled):
//   clang -g -I/tmp/probe/F/src/liblzma/api repro.c /tmp/probe/F/_asan/liblzma.a -fsanitize=address,undefined -lpthread -o repro_dbg && timeout 120 ./repro_dbg
//
// Only documented API usage: lzma_raw_encoder() with LZMA2 (dict=64MiB, mf=bt2,
// mode=normal, nice=64), lzma_code(LZMA_SYNC_FLUSH), lzma_filters_update()
// (lc/lp/pb change right after the sync flush), lzma_code(LZMA_FINISH).
//
// How the input is built (all positions are deterministic, xorshift PRNG):
//   P  : 33 MiB of zeros that contain a far "FF FF" byte pair (S) and a 4400
//        byte random string T'.  Ended with LZMA_SYNC_FLUSH, so the next LZMA2
//        chunk starts exactly at offset LP.  lzma_filters_update() switches to
//        lc=0,lp=4,pb=0 which also resets the probabilities.
//   F  : 61442 bytes that compress to 61433 bytes (i.e. the chunk is "almost
//        incompressible" but LZMA is still 9 bytes smaller at that point):
//        some literal-probability training for literal context (pos & 15) == 2
//        so that a literal 0xFF in that context is very expensive, random
//        bytes chosen to be slightly adversarial to the adaptive literal model,
//        8 zero bytes for fine tuning.
//   p  : "FF FF" followed by T (= T' with one byte changed every 40 bytes).
//        At p the only match candidate is the far "FF FF" pair (34 MB back,
//        about 46 bits = 6 output bytes for 2 input bytes), and from there on
//        every position has matches, so lzma_lzma_optimum_normal() reads
//        ahead the maximum 4095 bytes before it returns the first symbol.
// Result inside lzma_lzma_encode()/lzma2_encode():
//   before the symbol:  out_pos + rc_pending = 61438  (< 65536 - 4097, go on)
//   after the symbol :  compressed = 61444, uncompressed = 61444, read_ahead = 4093
//   compressed >= uncompressed -> uncompressed chunk of 61444 + 4093 = 65537 bytes.
#include <lzma.h>
#include <stdio.h>
#include <stdlib.h>
#include <string.h>
#include <stdint.h>
#include <unistd.h>

static uint64_t rng_s;
static uint64_t rnd(void){ rng_s ^= rng_s<<13; rng_s ^= rng_s>>7; rng_s ^= rng_s<<17; return rng_s; }
static uint32_t rndn(uint32_t n){ return n ? (uint32_t)(rnd()%n) : 0; }

#define TLEN 4400
#define LP ((size_t)33 << 20)   // size of the first part (ends with LZMA_SYNC_FLUSH)
#define U0 61442u               // offset of "FF FF" inside the crafted chunk
#define ZEROS 8                 // fine tuning of the compressed size
#define ADV 8
#define ADVBITS 2
#define NT 128

static uint8_t *buf, *outb, *dec;
static uint8_t Tp[TLEN];
static uint16_t lit[16][0x300];          // model of the encoder's literal probabilities (lc=0, lp=4)
static unsigned cctx; static int trained = 0; static int adv = ADV;

static void lit_update(size_t pos, uint8_t b)
{
	uint16_t *t = lit[pos & 15]; unsigned idx = 1;
	for (int i = 7; i >= 0; i--) {
		unsigned bit = (b >> i) & 1;
		if (bit) t[idx] -= t[idx] >> 5; else t[idx] += (2048 - t[idx]) >> 5;
		idx = (idx << 1) | bit;
	}
}
static uint8_t rb(void){ return (uint8_t)rndn(0xFE); }
// "incompressible" byte: the two highest bits are chosen against the adaptive model
static uint8_t bodybyte(size_t pos)
{
	uint16_t *t = lit[pos & 15]; unsigned idx = 1; uint8_t b = 0;
	for (int i = 7; i >= 0; i--) {
		unsigned bit; int dev = (int)t[idx] - 1024;
		if (adv && i >= 8 - ADVBITS && (dev > adv || dev < -adv)) bit = dev > 0 ? 1 : 0; else bit = rndn(2);
		if (trained && (pos & 15) == cctx) { if (i == 6 && (b & 0x80)) bit = 0; }
		b |= bit << i; idx = (idx << 1) | bit;
	}
	if (b >= 0xFE) b ^= 0x10;
	if (trained && (pos & 15) == cctx && (b & 0x80)) b &= ~0x40;
	return b;
}

int main(void)
{
	alarm(120);
	rng_s = 1*2654435761u + 777; for (int i = 0; i < 10; i++) rnd();
	size_t cap = LP + 65536 + 8192 + 16; buf = calloc(cap, 1); outb = malloc(1 << 21); dec = malloc(cap);
	for (int c = 0; c < 16; c++) for (int i = 0; i < 0x300; i++) lit[c][i] = 1024;
	const size_t p = LP + U0; cctx = p & 15;

	// ---- part P: zeros + far pair S + string T' ----
	for (int i = 0; i < TLEN; i++) Tp[i] = rb();
	size_t posS = 4096; buf[posS-1] = 0x11; buf[posS] = 0xFF; buf[posS+1] = 0xFF; buf[posS+2] = 0x22;
	size_t posT = LP - 16384; buf[posT-2] = 0x33; buf[posT-1] = 0xFF; memcpy(buf + posT, Tp, TLEN);

	// ---- part F: the crafted chunk ----
	size_t q = LP;
	{ // a few short rep matches (makes "is_rep" more expensive for the far match)
		uint8_t g = 0x41, h = 0x92;
		for (int i = 0; i < 8; i++) buf[q++] = rb();
		for (int u = 0; u < 140; u++) { for (int j = 0; j < 3; j++) { uint8_t v; do v = rb(); while (v == g || v == h); buf[q++] = v; } buf[q++] = g; buf[q++] = h; }
	}
	while (q & 15) buf[q++] = rb();
	for (size_t i = LP; i < q; i++) lit_update(i, buf[i]);
	// literal training in context (pos & 15) == cctx: make the bit path of 0xFF expensive
	for (int d = 7; d >= 1; d--) for (int i = 0; i < NT; i++) for (int j = 0; j < 16; j++) {
		uint8_t v;
		if ((q & 15) == cctx) { unsigned hi = (0xFFu << (8-d)) & 0xFF; unsigned nfree = 7-d; v = (uint8_t)(hi | (nfree ? rndn(1u << nfree) : 0)); }
		else v = bodybyte(q);
		buf[q] = v; lit_update(q, v); q++;
	}
	trained = 1;
	size_t bodyB = 96, bodyA = p - q - ZEROS - bodyB;
	for (size_t i = 0; i < bodyA; i++) { buf[q] = bodybyte(q); lit_update(q, buf[q]); q++; }
	q += ZEROS;
	for (size_t i = 0; i < bodyB; i++) { buf[q] = bodybyte(q); lit_update(q, buf[q]); q++; }
	// the last 24 byte pairs before p must be unique (no match candidates -> parse starts exactly at p)
	for (int tries = 0; tries < 10000; tries++) {
		int bad = 0;
		for (size_t a = p-24; a < p && !bad; a++) {
			uint8_t nx = (a+1 < p) ? buf[a+1] : 0xFF;
			for (size_t b = LP; b+1 < a; b++) if (buf[b] == buf[a] && buf[b+1] == nx) {
				bad = 1; adv = 0; buf[a] = bodybyte(a); if (a+1 < p) buf[a+1] = bodybyte(a+1); adv = ADV; break; }
		}
		if (!bad) break;
	}
	buf[q++] = 0xFF; buf[q++] = 0xFF;
	for (int i = 0; i < TLEN; i++) { uint8_t v = Tp[i]; if (i % 40 == 39) v ^= 1; buf[q++] = v; }
	size_t total = q;

	// ---- encode ----
	lzma_options_lzma o; lzma_lzma_preset(&o, 6);
	o.dict_size = 64u << 20; o.mf = LZMA_MF_BT2; o.mode = LZMA_MODE_NORMAL; o.nice_len = 64;
	lzma_options_lzma o2 = o; o2.lc = 0; o2.lp = 4; o2.pb = 0;
	lzma_filter f[2]  = {{LZMA_FILTER_LZMA2, &o},  {LZMA_VLI_UNKNOWN, NULL}};
	lzma_filter f2[2] = {{LZMA_FILTER_LZMA2, &o2}, {LZMA_VLI_UNKNOWN, NULL}};
	lzma_stream s = LZMA_STREAM_INIT; lzma_ret r;
	if (lzma_raw_encoder(&s, f) != LZMA_OK) { printf("init failed\n"); return 2; }
	s.next_out = outb; s.avail_out = 1 << 21;
	s.next_in = buf; s.avail_in = LP; do r = lzma_code(&s, LZMA_SYNC_FLUSH); while (r == LZMA_OK);
	if (r != LZMA_STREAM_END) { printf("flush r=%d\n", r); return 2; }
	size_t flushed = (1 << 21) - s.avail_out;
	r = lzma_filters_update(&s, f2); if (r != LZMA_OK) { printf("update r=%d\n", r); return 2; }
	s.next_in = buf + LP; s.avail_in = total - LP; do r = lzma_code(&s, LZMA_FINISH); while (r == LZMA_OK);
	printf("encoder: lzma_code(LZMA_FINISH) returned %d (1 = LZMA_STREAM_END), %zu -> %zu bytes\n", r, total, (size_t)((1 << 21) - s.avail_out));
	if (r != LZMA_STREAM_END) return 2;
	size_t ol = (1 << 21) - s.avail_out; lzma_end(&s);

	// ---- show the LZMA2 chunk headers written after the sync flush ----
	for (size_t i = flushed; i < ol; ) {
		uint8_t ctl = outb[i];
		if (ctl == 0) { printf("  end marker at %zu\n", i); break; }
		if (ctl >= 0x80) { unsigned us = ((ctl & 0x1F) << 16) + (outb[i+1] << 8) + outb[i+2] + 1, cs = (outb[i+3] << 8) + outb[i+4] + 1; int props = (ctl >> 5) & 3;
			printf("  LZMA chunk ctl=%02x uncompressed=%u compressed=%u\n", ctl, us, cs); i += 5 + (props >= 2) + cs; }
		else if (ctl <= 2) { unsigned us = (outb[i+1] << 8) + outb[i+2] + 1; printf("  uncompressed chunk ctl=%02x size=%u\n", ctl, us); i += 3 + us; }
		else { printf("  INVALID control byte %02x at offset %zu\n", ctl, i); break; }
	}

	// ---- decode and compare ----
	lzma_stream d = LZMA_STREAM_INIT; r = lzma_raw_decoder(&d, f);
	d.next_in = outb; d.avail_in = ol; d.next_out = dec; d.avail_out = cap;
	do r = lzma_code(&d, LZMA_FINISH); while (r == LZMA_OK);
	size_t dl = cap - d.avail_out; lzma_end(&d);
	int ok = (r == LZMA_STREAM_END && dl == total && memcmp(dec, buf, total) == 0);
	printf("decoder: ret=%d (1 = STREAM_END, 9 = DATA_ERROR) decoded=%zu of %zu -> %s\n", r, dl, total, ok ? "roundtrip OK" : "ROUNDTRIP FAILED (encoder produced a corrupt LZMA2 stream)");
	return ok ? 0 : 1;
}
