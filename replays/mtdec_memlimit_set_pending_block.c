// Replay for C09 (#34): lzma_memlimit_set() on the threaded decoder while an accepted Block waits in SEQ_BLOCK_DIRECT_INIT / SEQ_BLOCK_THR_INIT.
// build: gcc -O1 -g -I/repo/src/liblzma/api mtdec_memlimit_set_pending_block.c /repo/_build/liblzma.a -lpthread -o mtpend ; run: ./mtpend 1 ; ./mtpend 0
// defect: scenario 1 allocates 33 MB under an accepted 4 MiB limit, scenario 0 ends with LZMA_BUF_ERROR (assertion in debug builds); fixed: the call is refused with LZMA_MEMLIMIT_ERROR and decoding completes.
// Original notes (WT = the xz worktree, any build of liblzma; release build shows BUF_ERROR, debug build the assertion):
//   cmake -G Ninja -S $WT -B $WT/_rel -DCMAKE_BUILD_TYPE=Release -DBUILD_SHARED_LIBS=OFF -DXZ_SANDBOX=no && ninja -C $WT/_rel liblzma
//   gcc -O1 -g -I$WT/src/liblzma/api repro.c $WT/_rel/liblzma.a -lpthread -o repro
//   timeout 60 ./repro 1     # scenario 1: pending Block will use direct mode   -> hard limit exceeded (finding 1)
//   timeout 60 ./repro 0     # scenario 0: pending Block will use threaded mode -> assertion / LZMA_BUF_ERROR (finding 2)
#define _GNU_SOURCE
#include <stdio.h>
#include <stdlib.h>
#include <string.h>
#include <stdint.h>
#include <stdbool.h>
#include <stdatomic.h>
#include <unistd.h>
#include <assert.h>
#include <lzma.h>

static _Atomic uint64_t A_cur, A_peak, A_count;
static _Atomic long A_live;

static void *a_alloc(void *opaque, size_t nmemb, size_t size)
{
	(void)opaque; (void)nmemb;
	uint8_t *p = malloc(size + 32);
	if (!p) return NULL;
	*(uint64_t *)p = size;
	*(uint64_t *)(p + 8) = 0xA110CA7EDULL;
	uint64_t c = atomic_fetch_add(&A_cur, size) + size;
	uint64_t pk = atomic_load(&A_peak);
	while (c > pk && !atomic_compare_exchange_weak(&A_peak, &pk, c)) {}
	atomic_fetch_add(&A_count, 1);
	atomic_fetch_add(&A_live, 1);
	return p + 32;
}

static void a_free(void *opaque, void *ptr)
{
	(void)opaque;
	if (!ptr) return;
	uint8_t *p = (uint8_t *)ptr - 32;
	if (*(uint64_t *)(p + 8) != 0xA110CA7EDULL) { fprintf(stderr, "BAD FREE\n"); abort(); }
	*(uint64_t *)(p + 8) = 0xDEAD;
	atomic_fetch_sub(&A_cur, *(uint64_t *)p);
	atomic_fetch_sub(&A_live, 1);
	free(p);
}

static lzma_allocator ALLOC = { a_alloc, a_free, NULL };

static void a_reset_peak(void) { atomic_store(&A_peak, atomic_load(&A_cur)); }
static uint64_t a_cur(void) { return atomic_load(&A_cur); }
static uint64_t a_peak(void) { return atomic_load(&A_peak); }

// ---------- data ----------
static void gen_data(uint8_t *buf, size_t n, unsigned seed)
{
	// moderately compressible
	uint32_t x = seed * 2654435761u + 1;
	for (size_t i = 0; i < n; i++) {
		x = x * 1103515245u + 12345u;
		if ((x >> 28) < 6 && i > 64) buf[i] = buf[i - 1 - ((x >> 16) & 63)];
		else buf[i] = (uint8_t)("abcdefghijklmnop"[(x >> 20) & 15]);
	}
}

typedef struct { uint8_t *p; size_t n, cap; } vec;
static void vput(vec *v, const void *d, size_t n)
{
	if (v->n + n > v->cap) { v->cap = (v->n + n) * 2 + 4096; v->p = realloc(v->p, v->cap); }
	memcpy(v->p + v->n, d, n); v->n += n;
}

typedef struct {
	uint32_t dict;       // LZMA2 dict size
	int pre;             // 0 none, 1 delta, 2 x86, 3 x86+delta
	size_t usize;        // uncompressed size
	int sized;           // 1 = sizes in Block Header, 0 = not
} blkspec;

// Append one Stream with the given blocks to v; plain data appended to *plain
static void mk_stream(vec *v, vec *plain, const blkspec *b, int nb, lzma_check check, unsigned seed)
{
	lzma_stream_flags sf = { .version = 0, .check = check };
	uint8_t hdr[LZMA_STREAM_HEADER_SIZE];
	if (lzma_stream_header_encode(&sf, hdr)) abort();
	vput(v, hdr, sizeof hdr);
	lzma_index *idx = lzma_index_init(NULL);
	for (int i = 0; i < nb; i++) {
		lzma_options_lzma ol; lzma_lzma_preset(&ol, 1); ol.dict_size = b[i].dict;
		lzma_options_delta od = { .type = LZMA_DELTA_TYPE_BYTE, .dist = 1 };
		lzma_filter f[5]; int k = 0;
		if (b[i].pre & 2) { f[k].id = LZMA_FILTER_X86; f[k].options = NULL; k++; }
		if (b[i].pre & 1) { f[k].id = LZMA_FILTER_DELTA; f[k].options = &od; k++; }
		f[k].id = LZMA_FILTER_LZMA2; f[k].options = &ol; k++;
		f[k].id = LZMA_VLI_UNKNOWN; f[k].options = NULL;
		uint8_t *data = malloc(b[i].usize + 1);
		gen_data(data, b[i].usize, seed + i);
		vput(plain, data, b[i].usize);
		lzma_block blk; memset(&blk, 0, sizeof blk);
		blk.version = 0; blk.check = check; blk.filters = f;
		if (b[i].sized) {
			size_t bound = lzma_block_buffer_bound(b[i].usize);
			uint8_t *out = malloc(bound); size_t op = 0;
			if (lzma_block_buffer_encode(&blk, NULL, data, b[i].usize, out, &op, bound)) abort();
			vput(v, out, op); free(out);
		} else {
			blk.compressed_size = LZMA_VLI_UNKNOWN; blk.uncompressed_size = LZMA_VLI_UNKNOWN;
			if (lzma_block_header_size(&blk)) abort();
			uint8_t bh[LZMA_BLOCK_HEADER_SIZE_MAX];
			if (lzma_block_header_encode(&blk, bh)) abort();
			vput(v, bh, blk.header_size);
			lzma_stream s = LZMA_STREAM_INIT;
			if (lzma_block_encoder(&s, &blk)) abort();
			size_t bound = b[i].usize * 2 + 65536; uint8_t *out = malloc(bound);
			s.next_in = data; s.avail_in = b[i].usize; s.next_out = out; s.avail_out = bound;
			lzma_ret r = lzma_code(&s, LZMA_FINISH);
			if (r != LZMA_STREAM_END) abort();
			vput(v, out, bound - s.avail_out); free(out); lzma_end(&s);
		}
		if (lzma_index_append(idx, NULL, lzma_block_unpadded_size(&blk), blk.uncompressed_size)) abort();
		free(data);
	}
	// index
	size_t isz = lzma_index_size(idx); uint8_t *ib = malloc(isz); size_t ip = 0;
	if (lzma_index_buffer_encode(idx, ib, &ip, isz)) abort();
	vput(v, ib, ip); free(ib);
	sf.backward_size = lzma_index_size(idx);
	if (lzma_stream_footer_encode(&sf, hdr)) abort();
	vput(v, hdr, sizeof hdr);
	lzma_index_end(idx, NULL);
}

static const char *rs(lzma_ret r)
{
	static const char *n[] = {"OK","STREAM_END","NO_CHECK","UNSUPPORTED_CHECK","GET_CHECK","MEM_ERROR","MEMLIMIT_ERROR","FORMAT_ERROR","OPTIONS_ERROR","DATA_ERROR","BUF_ERROR","PROG_ERROR","SEEK_NEEDED"};
	static char b[32];
	if ((unsigned)r < 13) return n[r];
	if (r == 101) return "TIMED_OUT";
	snprintf(b, sizeof b, "ret%d", r); return b;
}
int main(int argc, char **argv)
{
	alarm(60);
	int scenario = argc > 1 ? atoi(argv[1]) : 0;
	// Block 1: small dict, 1 MiB of data, sized. Block 2: 32 MiB dict; sized (scenario 0) or unsized (scenario 1)
	blkspec b[] = { {1 << 16, 0, 1 << 20, 1}, {32 << 20, 0, 1 << 20, scenario == 0}, {1 << 16, 0, 1000, 1} };
	vec v = {0}, plain = {0};
	mk_stream(&v, &plain, b, 3, LZMA_CHECK_CRC32, 7);

	lzma_mt mt; memset(&mt, 0, sizeof mt);
	mt.threads = 1; mt.memlimit_threading = UINT64_MAX; mt.memlimit_stop = UINT64_MAX;
	lzma_stream s = LZMA_STREAM_INIT; s.allocator = &ALLOC;
	if (lzma_stream_decoder_mt(&s, &mt) != LZMA_OK) abort();
	uint8_t *ob = malloc(plain.n); vec out = {0};
	// Give all the input, but only a little output space: Block 1 gets started,
	// Block 2's header is decoded, and the decoder must wait for Block 1.
	s.next_in = v.p; s.avail_in = v.n;
	s.next_out = ob; s.avail_out = 1000;
	lzma_ret r = lzma_code(&s, LZMA_RUN);
	vput(&out, ob, 1000 - s.avail_out);
	printf("first call: %s, consumed %zu of %zu, out %zu, memusage %llu, allocated %llu\n", rs(r), v.n - s.avail_in, v.n, out.n,
		(unsigned long long)lzma_memusage(&s), (unsigned long long)a_cur());
	uint64_t newlimit = 4 << 20;
	r = lzma_memlimit_set(&s, newlimit);
	printf("lzma_memlimit_set(4 MiB): %s, memlimit_get = %llu\n", rs(r), (unsigned long long)lzma_memlimit_get(&s));
	a_reset_peak();
	int calls = 0;
	for (;;) {
		s.next_out = ob; s.avail_out = plain.n;
		r = lzma_code(&s, LZMA_FINISH);
		vput(&out, ob, plain.n - s.avail_out);
		calls++;
		if (r != LZMA_OK) break;
	}
	printf("final: %s after %d calls, out %zu of %zu, peak allocated %llu, memlimit_get %llu, memusage %llu\n", rs(r), calls, out.n, plain.n,
		(unsigned long long)a_peak(), (unsigned long long)lzma_memlimit_get(&s), (unsigned long long)lzma_memusage(&s));
	const uint64_t eff = lzma_memlimit_get(&s); /* the limit in force: unchanged if lzma_memlimit_set() refused */
	int bad = 0;
	if (eff != UINT64_MAX && a_peak() > eff + 32768) { bad = 1; printf("VIOLATION: peak %llu > memlimit_stop %llu\n", (unsigned long long)a_peak(), (unsigned long long)eff); }
	if (r != LZMA_STREAM_END && r != LZMA_MEMLIMIT_ERROR) { bad = 1; printf("VIOLATION: unexpected final result %s\n", rs(r)); }
	if (!bad) printf("ok: the limit in force was respected and decoding ended with %s\n", rs(r));
	lzma_end(&s);
	return 0;
}
