#!/bin/bash
# Run: bash repro.sh     (uses /tmp/probe/D/_rel/xz; override with XZ=)
# A filter chain that passes the up-front validation but is rejected by
# lzma_filters_update() when --block-list switches to it makes xz call
# message_fatal() in the middle of a file: the partial target file is left behind.
XZ=${XZ:-/tmp/probe/D/_rel/xz}
d=$(mktemp -d); cd "$d" || exit 1
head -c 300000 /dev/urandom > in
echo "== single-threaded, default chain (BCJ start offset not aligned) used for the 2nd Block"
timeout 60 $XZ -T1 --filters1=lzma2 --arm=start=1 --lzma2 --block-list=1:100000,0:1000 in; echo "rc=$?"
ls -l
echo "== a second attempt (e.g. after fixing the options) now fails because of the junk file"
timeout 60 $XZ -T1 in; echo "rc=$?"
rm -f in.xz
echo "== same with a --filters1 string chain as the 2nd chain"
timeout 60 $XZ -T1 --filters1="arm:start=1 lzma2" --block-list=0:100000,1:1000 in; echo "rc=$?"
ls -l
echo "== stdout variant: O_NONBLOCK that xz set on the shared stdout description is not restored"
timeout 30 python3 - "$XZ" <<'P'
import os,fcntl,subprocess,sys
fd=os.open('out.bin',os.O_WRONLY|os.O_CREAT|os.O_TRUNC,0o600)
p=subprocess.Popen([sys.argv[1],'-T1','-c','--filters1=lzma2','--arm=start=1','--lzma2','--block-list=1:100000,0:1000','in'],stdout=fd,stderr=subprocess.DEVNULL)
p.wait(timeout=20); print('rc',p.returncode,'O_NONBLOCK left set on the stdout open file description:',bool(fcntl.fcntl(fd,fcntl.F_GETFL)&os.O_NONBLOCK))
P
cd /; rm -rf "$d"
