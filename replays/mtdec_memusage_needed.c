// After LZMA_MEMLIMIT_ERROR from the threaded decoder, lzma_memusage() does not tell how much memory is
// needed (it reports only what is currently allocated, typically LZMA_MEMUSAGE_BASE = 32 KiB).
// The documented recovery "limit = lzma_memusage(); lzma_memlimit_set(limit); continue" therefore never works
// and xz prints "1 MiB of memory is required. The limit is 5 MiB."
//
//   W=/tmp/probe/B; gcc -g -I$W/src/liblzma/api repro.c $W/_asan/liblzma.a -fsanitize=address,undefined -lpthread -o repro \
//      && timeout 60 ./repro
#include <lzma.h>
#include <stdio.h>
#include <stdlib.h>
#include <string.h>
#include <unistd.h>
#include <inttypes.h>

#define N 200000
static uint8_t plain[N], comp[N * 2], out[N];

static int run(int mt, size_t clen)
{
	const uint64_t limit = 5u << 20;
	lzma_stream d = LZMA_STREAM_INIT;
	lzma_ret r;
	if (mt) {
		lzma_mt o = { .threads = 4, .memlimit_threading = limit, .memlimit_stop = limit };
		r = lzma_stream_decoder_mt(&d, &o);
	} else {
		r = lzma_stream_decoder(&d, limit, 0);
	}
	if (r != LZMA_OK) exit(3);
	d.next_in = comp; d.avail_in = clen; d.next_out = out; d.avail_out = N;
	int memlimit_errors = 0;
	while (1) {
		r = lzma_code(&d, LZMA_FINISH);
		if (r == LZMA_MEMLIMIT_ERROR) {
			uint64_t need = lzma_memusage(&d);
			printf("  LZMA_MEMLIMIT_ERROR: lzma_memusage()=%" PRIu64 " lzma_memlimit_get()=%" PRIu64 "\n",
					need, lzma_memlimit_get(&d));
			if (++memlimit_errors == 3) { printf("  giving up: raising the limit to lzma_memusage() does not help\n"); break; }
			lzma_ret sr = lzma_memlimit_set(&d, need);
			printf("  lzma_memlimit_set(%" PRIu64 ") -> %d\n", need, sr);
			continue;
		}
		if (r != LZMA_OK) break;
	}
	printf("  final: ret=%d total_out=%" PRIu64 "\n", r, d.total_out);
	lzma_end(&d);
	return r == LZMA_STREAM_END ? 0 : 1;
}

int main(void)
{
	alarm(60);
	for (size_t i = 0; i < N; i++) plain[i] = (uint8_t)(i * 7 + i / 1000);
	// LZMA2 with a 64 MiB dictionary: decoder needs ~64 MiB.
	lzma_options_lzma o; lzma_lzma_preset(&o, 0); o.dict_size = 64u << 20;
	lzma_filter f[2] = { { LZMA_FILTER_LZMA2, &o }, { LZMA_VLI_UNKNOWN, NULL } };
	lzma_stream s = LZMA_STREAM_INIT;
	lzma_mt emt = { .threads = 1, .block_size = 100000, .filters = f, .check = LZMA_CHECK_CRC32 };
	if (lzma_stream_encoder_mt(&s, &emt) != LZMA_OK) return 2;
	s.next_in = plain; s.avail_in = N; s.next_out = comp; s.avail_out = sizeof comp;
	lzma_ret r; while ((r = lzma_code(&s, LZMA_FINISH)) == LZMA_OK) ;
	if (r != LZMA_STREAM_END) return 2;
	size_t clen = sizeof comp - s.avail_out;
	lzma_end(&s);

	printf("single-threaded lzma_stream_decoder(), memlimit 5 MiB:\n");
	int a = run(0, clen);
	printf("lzma_stream_decoder_mt(), memlimit_stop 5 MiB:\n");
	int b = run(1, clen);
	if (a == 0 && b != 0) { printf("BUG: MT decoder's lzma_memusage() after LZMA_MEMLIMIT_ERROR is not the required amount\n"); return 1; }
	return 0;
}
