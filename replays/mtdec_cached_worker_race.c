// Replay for C09 (#35): race between the snapshot of coder->threads_free and get_thread() in SEQ_BLOCK_THR_INIT.
// build: gcc -O1 -g -I/repo/src/liblzma/api mtdec_cached_worker_race.c /repo/_build/liblzma.a -lpthread -o mtrace ; run: ./mtrace 2 100
// defect: about half of the runs exceed memlimit_stop = memlimit_threading = 35 MiB (peak 67 MB); fixed: 0 runs.
// Build and run (WT = the xz worktree with a build of liblzma.a, release or debug):
//   gcc -O1 -g -I$WT/src/liblzma/api repro.c $WT/_rel/liblzma.a -lpthread -o repro
//   timeout 120 ./repro 2 100 ; timeout 120 ./repro 4 100 ; timeout 120 ./repro 1 100
// (args: threads, number of runs; it is a race, about half of the runs hit it on a 16 core machine)
#define _GNU_SOURCE
#include <stdio.h>
#include <stdlib.h>
#include <string.h>
#include <stdint.h>
#include <stdbool.h>
#include <stdatomic.h>
#include <unistd.h>
#include <assert.h>
#include <lzma.h>

static _Atomic uint64_t A_cur, A_peak, A_count;
static _Atomic long A_live;

static void *a_alloc(void *opaque, size_t nmemb, size_t size)
{
	(void)opaque; (void)nmemb;
	uint8_t *p = malloc(size + 32);
	if (!p) return NULL;
	*(uint64_t *)p = size;
	*(uint64_t *)(p + 8) = 0xA110CA7EDULL;
	uint64_t c = atomic_fetch_add(&A_cur, size) + size;
	uint64_t pk = atomic_load(&A_peak);
	while (c > pk && !atomic_compare_exchange_weak(&A_peak, &pk, c)) {}
	atomic_fetch_add(&A_count, 1);
	atomic_fetch_add(&A_live, 1);
	return p + 32;
}

static void a_free(void *opaque, void *ptr)
{
	(void)opaque;
	if (!ptr) return;
	uint8_t *p = (uint8_t *)ptr - 32;
	if (*(uint64_t *)(p + 8) != 0xA110CA7EDULL) { fprintf(stderr, "BAD FREE\n"); abort(); }
	*(uint64_t *)(p + 8) = 0xDEAD;
	atomic_fetch_sub(&A_cur, *(uint64_t *)p);
	atomic_fetch_sub(&A_live, 1);
	free(p);
}

static lzma_allocator ALLOC = { a_alloc, a_free, NULL };

static void a_reset_peak(void) { atomic_store(&A_peak, atomic_load(&A_cur)); }
static uint64_t a_cur(void) { return atomic_load(&A_cur); }
static uint64_t a_peak(void) { return atomic_load(&A_peak); }

// ---------- data ----------
static void gen_data(uint8_t *buf, size_t n, unsigned seed)
{
	// moderately compressible
	uint32_t x = seed * 2654435761u + 1;
	for (size_t i = 0; i < n; i++) {
		x = x * 1103515245u + 12345u;
		if ((x >> 28) < 6 && i > 64) buf[i] = buf[i - 1 - ((x >> 16) & 63)];
		else buf[i] = (uint8_t)("abcdefghijklmnop"[(x >> 20) & 15]);
	}
}

typedef struct { uint8_t *p; size_t n, cap; } vec;
static void vput(vec *v, const void *d, size_t n)
{
	if (v->n + n > v->cap) { v->cap = (v->n + n) * 2 + 4096; v->p = realloc(v->p, v->cap); }
	memcpy(v->p + v->n, d, n); v->n += n;
}

typedef struct {
	uint32_t dict;       // LZMA2 dict size
	int pre;             // 0 none, 1 delta, 2 x86, 3 x86+delta
	size_t usize;        // uncompressed size
	int sized;           // 1 = sizes in Block Header, 0 = not
} blkspec;

// Append one Stream with the given blocks to v; plain data appended to *plain
static void mk_stream(vec *v, vec *plain, const blkspec *b, int nb, lzma_check check, unsigned seed)
{
	lzma_stream_flags sf = { .version = 0, .check = check };
	uint8_t hdr[LZMA_STREAM_HEADER_SIZE];
	if (lzma_stream_header_encode(&sf, hdr)) abort();
	vput(v, hdr, sizeof hdr);
	lzma_index *idx = lzma_index_init(NULL);
	for (int i = 0; i < nb; i++) {
		lzma_options_lzma ol; lzma_lzma_preset(&ol, 1); ol.dict_size = b[i].dict;
		lzma_options_delta od = { .type = LZMA_DELTA_TYPE_BYTE, .dist = 1 };
		lzma_filter f[5]; int k = 0;
		if (b[i].pre & 2) { f[k].id = LZMA_FILTER_X86; f[k].options = NULL; k++; }
		if (b[i].pre & 1) { f[k].id = LZMA_FILTER_DELTA; f[k].options = &od; k++; }
		f[k].id = LZMA_FILTER_LZMA2; f[k].options = &ol; k++;
		f[k].id = LZMA_VLI_UNKNOWN; f[k].options = NULL;
		uint8_t *data = malloc(b[i].usize + 1);
		gen_data(data, b[i].usize, seed + i);
		vput(plain, data, b[i].usize);
		lzma_block blk; memset(&blk, 0, sizeof blk);
		blk.version = 0; blk.check = check; blk.filters = f;
		if (b[i].sized) {
			size_t bound = lzma_block_buffer_bound(b[i].usize);
			uint8_t *out = malloc(bound); size_t op = 0;
			if (lzma_block_buffer_encode(&blk, NULL, data, b[i].usize, out, &op, bound)) abort();
			vput(v, out, op); free(out);
		} else {
			blk.compressed_size = LZMA_VLI_UNKNOWN; blk.uncompressed_size = LZMA_VLI_UNKNOWN;
			if (lzma_block_header_size(&blk)) abort();
			uint8_t bh[LZMA_BLOCK_HEADER_SIZE_MAX];
			if (lzma_block_header_encode(&blk, bh)) abort();
			vput(v, bh, blk.header_size);
			lzma_stream s = LZMA_STREAM_INIT;
			if (lzma_block_encoder(&s, &blk)) abort();
			size_t bound = b[i].usize * 2 + 65536; uint8_t *out = malloc(bound);
			s.next_in = data; s.avail_in = b[i].usize; s.next_out = out; s.avail_out = bound;
			lzma_ret r = lzma_code(&s, LZMA_FINISH);
			if (r != LZMA_STREAM_END) abort();
			vput(v, out, bound - s.avail_out); free(out); lzma_end(&s);
		}
		if (lzma_index_append(idx, NULL, lzma_block_unpadded_size(&blk), blk.uncompressed_size)) abort();
		free(data);
	}
	// index
	size_t isz = lzma_index_size(idx); uint8_t *ib = malloc(isz); size_t ip = 0;
	if (lzma_index_buffer_encode(idx, ib, &ip, isz)) abort();
	vput(v, ib, ip); free(ib);
	sf.backward_size = lzma_index_size(idx);
	if (lzma_stream_footer_encode(&sf, hdr)) abort();
	vput(v, hdr, sizeof hdr);
	lzma_index_end(idx, NULL);
}

static const char *rs(lzma_ret r)
{
	static const char *n[] = {"OK","STREAM_END","NO_CHECK","UNSUPPORTED_CHECK","GET_CHECK","MEM_ERROR","MEMLIMIT_ERROR","FORMAT_ERROR","OPTIONS_ERROR","DATA_ERROR","BUF_ERROR","PROG_ERROR","SEEK_NEEDED"};
	static char b[32];
	if ((unsigned)r < 13) return n[r];
	if (r == 101) return "TIMED_OUT";
	snprintf(b, sizeof b, "ret%d", r); return b;
}
typedef unsigned long long ull;

int main(int argc, char **argv)
{
	alarm(120);
	int threads = argc > 1 ? atoi(argv[1]) : 2;
	int runs = argc > 2 ? atoi(argv[2]) : 200;
	enum { TRIPLES = 40 };
	blkspec b[TRIPLES * 3];
	for (int i = 0; i < TRIPLES; i++) {
		b[3 * i + 0] = (blkspec){ 32 << 20, 0, 1000 + 37 * i, 1 };   // 8 MiB dictionary, tiny Block
		b[3 * i + 1] = (blkspec){ 4096, 0, 1000 + 41 * i, 1 };      // 4 KiB dictionary, tiny Block
		b[3 * i + 2] = (blkspec){ 32 << 20, 0, 1000, 1 };           // 32 MiB dictionary, tiny Block
	}
	vec v = {0}, plain = {0};
	mk_stream(&v, &plain, b, TRIPLES * 3, LZMA_CHECK_CRC32, 1);
	const uint64_t limit = 35 << 20;   // every Block alone fits in threaded mode (biggest needs ~33.7 MiB)
	uint8_t *ob = malloc(plain.n + 1);
	int hits = 0; uint64_t worst = 0, worst_mu = 0;
	for (int run = 0; run < runs; run++) {
		lzma_mt mt; memset(&mt, 0, sizeof mt);
		mt.threads = threads; mt.memlimit_threading = limit; mt.memlimit_stop = limit;
		lzma_stream s = LZMA_STREAM_INIT; s.allocator = &ALLOC;
		uint64_t base = a_cur(); a_reset_peak();
		if (lzma_stream_decoder_mt(&s, &mt) != LZMA_OK) abort();
		s.next_in = v.p; s.avail_in = v.n; s.next_out = ob; s.avail_out = plain.n + 1;
		lzma_ret r; uint64_t mu_max = 0;
		do {
			r = lzma_code(&s, LZMA_FINISH);
			uint64_t mu = lzma_memusage(&s); if (mu > mu_max) mu_max = mu;
		} while (r == LZMA_OK);
		uint64_t pk = a_peak() - base;
		if (r != LZMA_STREAM_END || plain.n + 1 - s.avail_out != plain.n || memcmp(ob, plain.p, plain.n)) printf("run %d: bad result %s\n", run, rs(r));
		if (pk > limit + 32768) { hits++; if (pk > worst) worst = pk; }
		if (mu_max > worst_mu) worst_mu = mu_max;
		lzma_end(&s);
	}
	printf("threads=%d: %d of %d runs exceeded memlimit_stop=memlimit_threading=%llu; worst peak allocation %llu (+%llu); highest lzma_memusage() seen after a call %llu\n",
		threads, hits, runs, (ull)limit, (ull)worst, worst ? (ull)(worst - limit) : 0, (ull)worst_mu);
	return 0;
}
