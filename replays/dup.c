#include <lzma.h>
#include <stdio.h>
int main(void){
  lzma_index *a=lzma_index_init(NULL), *b=lzma_index_init(NULL);
  lzma_stream_flags f={.version=0,.backward_size=LZMA_BACKWARD_SIZE_MIN,.check=LZMA_CHECK_CRC32};
  lzma_index_stream_flags(a,&f); f.check=LZMA_CHECK_SHA256; lzma_index_stream_flags(b,&f);
  lzma_index_append(a,NULL,100,100); lzma_index_append(b,NULL,100,100);
  if(lzma_index_cat(a,b,NULL)!=LZMA_OK) return 2;
  lzma_index *d=lzma_index_dup(a,NULL);
  printf("orig checks=%#x dup checks=%#x\n", lzma_index_checks(a), lzma_index_checks(d));
  return lzma_index_checks(a)!=lzma_index_checks(d);
}
