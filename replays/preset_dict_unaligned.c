/* Raw LZMA2/LZMA1 round trip with a preset dictionary whose size is not a multiple of 2^pb (or 2^lp).
 * Build: cc -O1 -I/repo/src/liblzma/api preset_dict_unaligned.c /repo/_build/liblzma.a -lpthread
 * Exit 1 if any configuration fails to round-trip. */
#include <lzma.h>
#include <stdio.h>
#include <string.h>
#include <stdlib.h>

static int trial(lzma_vli id, size_t dict_len, uint32_t pb, uint32_t lp)
{
	static uint8_t preset[64], in[4000], comp[8000], out[4000];
	for (size_t i = 0; i < sizeof(preset); ++i) preset[i] = (uint8_t)(i * 7 + 3);
	unsigned s = 12345;
	for (size_t i = 0; i < sizeof(in); ++i) { s = s * 1103515245u + 12345u; in[i] = (uint8_t)("abcdefgh"[(s >> 16) & 7] + (i % 4 == 0)); }
	lzma_options_lzma opt;
	lzma_lzma_preset(&opt, 1);
	opt.pb = pb; opt.lp = lp; opt.lc = 0;
	opt.preset_dict = preset; opt.preset_dict_size = (uint32_t)dict_len;
	lzma_filter f[2] = { { id, &opt }, { LZMA_VLI_UNKNOWN, NULL } };
	size_t clen = 0;
	lzma_ret r = lzma_raw_buffer_encode(f, NULL, in, sizeof(in), comp, &clen, sizeof(comp));
	if (r != LZMA_OK) { printf("encode ret=%d\n", r); return 2; }
	size_t ip = 0, op = 0;
	r = lzma_raw_buffer_decode(f, NULL, comp, &ip, clen, out, &op, sizeof(out));
	int ok = r == LZMA_OK && op == sizeof(in) && memcmp(in, out, sizeof(in)) == 0;
	printf("%s dict_len=%zu pb=%u lp=%u: decode ret=%d out=%zu %s\n", id == LZMA_FILTER_LZMA2 ? "LZMA2" : "LZMA1",
		dict_len, pb, lp, r, op, ok ? "ok" : "MISMATCH");
	return ok ? 0 : 1;
}

int main(void)
{
	int bad = 0;
	const size_t lens[] = { 0, 16, 5, 7, 33 };
	for (int k = 0; k < 2; ++k)
		for (size_t i = 0; i < 5; ++i) {
			bad |= trial(k ? LZMA_FILTER_LZMA1 : LZMA_FILTER_LZMA2, lens[i], 2, 0);
			bad |= trial(k ? LZMA_FILTER_LZMA1 : LZMA_FILTER_LZMA2, lens[i], 0, 2);
		}
	printf(bad ? "RESULT: round trip fails with an unaligned preset dictionary\n" : "RESULT: all round trips ok\n");
	return bad ? 1 : 0;
}
