// W=/tmp/probe/C
// Release (NDEBUG) build: cc -g -I$W/src/liblzma/api repro.c $W/_rel/liblzma.a -lpthread -o repro_rel && timeout 60 ./repro_rel
// Debug build (asserts):  cc -g -I$W/src/liblzma/api repro.c $W/_asan/liblzma.a -fsanitize=address,undefined -lpthread -o repro_dbg && timeout 60 ./repro_dbg
//
// lzma_stream_buffer_decode(): truncated input is reported as LZMA_BUF_ERROR
// ("output buffer too small") instead of LZMA_DATA_ERROR, and a too small
// output buffer can be reported as LZMA_DATA_ERROR when *in_pos == in_size
// happens to hold for the *start* position. With assertions enabled the same
// call aborts in assert().
#include <lzma.h>
#include <stdio.h>
#include <string.h>
#include <unistd.h>

int main(void)
{
	alarm(60); setvbuf(stdout, NULL, _IONBF, 0);
	uint8_t data[1000];
	for (size_t i = 0; i < sizeof data; i++) data[i] = (uint8_t)(i * 7);
	uint8_t xz[2000]; size_t xz_size = 0;
	if (lzma_easy_buffer_encode(6, LZMA_CHECK_CRC32, NULL, data, sizeof data, xz, &xz_size, sizeof xz) != LZMA_OK)
		return 2;
	printf("xz_size = %zu\n", xz_size);

	uint8_t out[4096];
	// (1) complete input, plenty of output space: OK
	{
		uint64_t memlimit = UINT64_MAX; size_t in_pos = 0, out_pos = 0;
		lzma_ret r = lzma_stream_buffer_decode(&memlimit, 0, NULL, xz, &in_pos, xz_size, out, &out_pos, sizeof out);
		printf("complete input, big output:       ret=%d (expect 0 LZMA_OK)\n", r);
	}
	// (2) complete input, too small output: expect LZMA_BUF_ERROR (10)
	{
		uint64_t memlimit = UINT64_MAX; size_t in_pos = 0, out_pos = 0;
		lzma_ret r = lzma_stream_buffer_decode(&memlimit, 0, NULL, xz, &in_pos, xz_size, out, &out_pos, 100);
		printf("complete input, small output:     ret=%d (expect 10 LZMA_BUF_ERROR)\n", r);
	}
	// (3) truncated input, plenty of output space: expect LZMA_DATA_ERROR (9)
	//     as documented in the code ("If all the input was consumed, then
	//     the input is truncated") and as lzma_block_buffer_decode() does.
	{
		uint64_t memlimit = UINT64_MAX; size_t in_pos = 0, out_pos = 0;
		lzma_ret r = lzma_stream_buffer_decode(&memlimit, 0, NULL, xz, &in_pos, xz_size - 5, out, &out_pos, sizeof out);
		printf("truncated input, big output:      ret=%d (expect 9 LZMA_DATA_ERROR)\n", r);
	}
	// (4) the same with half of the file
	{
		uint64_t memlimit = UINT64_MAX; size_t in_pos = 0, out_pos = 0;
		lzma_ret r = lzma_stream_buffer_decode(&memlimit, 0, NULL, xz, &in_pos, xz_size / 2, out, &out_pos, sizeof out);
		printf("half of the input, big output:    ret=%d (expect 9 LZMA_DATA_ERROR)\n", r);
	}
	return 0;
}
