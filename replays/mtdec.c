#include <lzma.h>
#include <stdio.h>
#include <stdlib.h>
int main(int argc,char**argv){
  FILE*f=fopen(argv[1],"rb"); 
  lzma_stream s=LZMA_STREAM_INIT; lzma_mt mt={.flags=0,.threads=4,.timeout=0,.memlimit_threading=UINT64_MAX,.memlimit_stop=UINT64_MAX};
  if(lzma_stream_decoder_mt(&s,&mt)!=LZMA_OK) return 2;
  static unsigned char in[4096], out[1<<16]; lzma_ret r=LZMA_OK; lzma_action a=LZMA_RUN;
  while(r==LZMA_OK){ if(s.avail_in==0&&a==LZMA_RUN){ s.next_in=in; s.avail_in=fread(in,1,sizeof in,f); if(s.avail_in==0) a=LZMA_FINISH; }
    s.next_out=out; s.avail_out=sizeof out; r=lzma_code(&s,a); }
  printf("ret=%d total_out=%llu\n",r,(unsigned long long)s.total_out); lzma_end(&s); return r!=LZMA_STREAM_END;
}
