/* C08: after re-initialising a threaded encoder whose workers were busy, a stopped worker adds its partial output to
 * coder->progress_out AFTER stream_encoder_mt_init() has reset the counters (threads_stop() only waits for
 * state == THR_IDLE, which the worker publishes before it takes coder->mutex to update the totals).
 * Build: cc -O1 -g -I/repo/src/liblzma/api progress.c <liblzma.a> -lpthread -o progress
 * Each iteration: start a session, feed incompressible data with LZMA_RUN so that the workers have produced output,
 * re-initialise with the same thread count, wait a moment, then ask lzma_get_progress(): nothing has been coded in the
 * new session, so progress_out must be exactly 12 (the Stream Header that the encoder counts up front). */
#include <lzma.h>
#include <stdio.h>
#include <stdlib.h>
#include <string.h>
#include <unistd.h>
int main(int argc, char **argv){
  int iters = argc > 1 ? atoi(argv[1]) : 3000, bad = 0;
  static unsigned char in[1<<20], out[1<<16];
  unsigned x = 1; for (size_t i=0;i<sizeof in;i++){ x = x*1103515245u+12345u; in[i]=x>>16; }
  lzma_stream s = LZMA_STREAM_INIT;
  lzma_mt mt = { .flags=0, .threads=4, .block_size=256<<10, .timeout=0, .preset=0, .filters=NULL, .check=LZMA_CHECK_CRC32 };
  for (int it=0; it<iters; it++){
    if (lzma_stream_encoder_mt(&s,&mt)!=LZMA_OK) return 2;
    s.next_in=in; s.avail_in=sizeof in - (it%7)*4096; s.next_out=out; s.avail_out=sizeof out;
    lzma_ret r = lzma_code(&s, LZMA_RUN);
    if (r!=LZMA_OK) { printf("code=%d\n", r); return 2; }
    if (lzma_stream_encoder_mt(&s,&mt)!=LZMA_OK) return 2;      /* re-init while workers are busy */
    usleep(2000);
    uint64_t pin, pout; lzma_get_progress(&s,&pin,&pout);
    if (pin != 0 || pout != 12) { bad++; if (bad <= 5) printf("iteration %d: after re-init progress_in=%llu progress_out=%llu (expected 0 / 12)\n", it,(unsigned long long)pin,(unsigned long long)pout); }
  }
  lzma_end(&s);
  printf("%d of %d re-initialisations reported progress from the previous session\n", bad, iters);
  return bad != 0;
}
