// Replay for C04 (#36): needs a liblzma built with clang -fsanitize=undefined (e.g. CC=clang cmake -S /repo -B /tmp/ub -DCMAKE_C_FLAGS="-fsanitize=undefined -g" -DBUILD_SHARED_LIBS=OFF).
// defect: "runtime error: applying zero offset to null pointer" at lzma_decoder.c (rc_to_local); fixed: silent.
// Finding 1: NULL + 0 pointer arithmetic (undefined behaviour) in lzma_decode()
// when lzma_code() is called with next_in == NULL, avail_in == 0 (allowed by
// the lzma_code() argument checks) while a LZMA1/LZMA2 chunk is being decoded.
//
// Build + run (liblzma built with -fsanitize=address,undefined, clang 14):
//   clang -g -fsanitize=address,undefined -I/repo/src/liblzma/api repro.c \
//       /tmp/replay/asan/liblzma.a -lpthread -o repro && \
//   UBSAN_OPTIONS=print_stacktrace=1 timeout 60 ./repro
#include <lzma.h>
#include <stdio.h>
#include <string.h>
#include <unistd.h>

int main(void)
{
	alarm(30);
	// Create a small .xz file in memory.
	uint8_t plain[4096], xz[8192], out[8192];
	for (size_t i = 0; i < sizeof(plain); i++)
		plain[i] = (uint8_t)("liblzma "[i % 8] + (i / 512));
	size_t xz_size = 0;
	if (lzma_easy_buffer_encode(1, LZMA_CHECK_CRC32, NULL, plain, sizeof(plain),
			xz, &xz_size, sizeof(xz)) != LZMA_OK)
		return 1;

	lzma_stream strm = LZMA_STREAM_INIT;
	if (lzma_stream_decoder(&strm, UINT64_MAX, 0) != LZMA_OK)
		return 1;

	// Give the first 40 bytes: Stream Header, Block Header and the
	// beginning of the LZMA2 chunk. The decoder is now inside SEQ_LZMA.
	strm.next_in = xz;
	strm.avail_in = 40;
	strm.next_out = out;
	strm.avail_out = sizeof(out);
	lzma_ret ret = lzma_code(&strm, LZMA_RUN);
	printf("1st call: ret=%d avail_in=%zu total_out=%llu\n", ret, strm.avail_in,
			(unsigned long long)strm.total_out);

	// No more input available at the moment: an application may set
	// next_in = NULL, avail_in = 0. lzma_code() accepts this (only
	// NULL with avail_in != 0 is LZMA_PROG_ERROR).
	strm.next_in = NULL;
	strm.avail_in = 0;
	ret = lzma_code(&strm, LZMA_RUN);   // <-- UBSan: applying zero offset to null pointer
	printf("2nd call (next_in=NULL, avail_in=0): ret=%d\n", ret);

	// Decoding continues normally afterwards.
	strm.next_in = xz + 40;
	strm.avail_in = xz_size - 40;
	ret = lzma_code(&strm, LZMA_FINISH);
	printf("3rd call: ret=%d total_out=%llu ok=%d\n", ret,
			(unsigned long long)strm.total_out,
			strm.total_out == sizeof(plain) && memcmp(out, plain, sizeof(plain)) == 0);
	lzma_end(&strm);
	return 0;
}
