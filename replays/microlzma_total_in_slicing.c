/* Replay for C06 (known finding): lzma_microlzma_decoder() with uncomp_size_is_exact = false ends the stream when the
 * declared number of output bytes has been produced; how many input bytes the LZMA decoder has consumed at that moment
 * depends on how the input was sliced (the range decoder may or may not have read its next normalisation byte).
 * Output bytes and return codes are identical; strm.total_in differs.
 *
 * build: cc -I/repo/src/liblzma/api microlzma_total_in_slicing.c /repo/_build/liblzma.a -lpthread -o ml_total_in
 * run:   ./ml_total_in      (exit 1 and "DIFFERENT total_in" lines while the finding exists) */
#include <lzma.h>
#include <stdio.h>
#include <string.h>
#include <stdlib.h>
#include <unistd.h>

static uint8_t in[1 << 16], comp[1 << 16], out[1 << 16];

static int decode(size_t comp_size, size_t uncomp, size_t chunk, uint64_t *tin, size_t *tout)
{
	lzma_stream s = LZMA_STREAM_INIT;
	if (lzma_microlzma_decoder(&s, comp_size, uncomp, 0, 1 << 16) != LZMA_OK)
		return -1;
	size_t ip = 0;
	s.next_out = out; s.avail_out = sizeof(out);
	lzma_ret r = LZMA_OK;
	int idle = 0;
	while (r == LZMA_OK) {
		size_t n = comp_size - ip < chunk ? comp_size - ip : chunk;
		s.next_in = comp + ip; s.avail_in = n;
		r = lzma_code(&s, LZMA_RUN);
		ip += n - s.avail_in;
		if (n == 0 && ++idle > 3) break;
	}
	*tin = s.total_in; *tout = s.total_out;
	lzma_end(&s);
	return (int)r;
}

int main(void)
{
	alarm(60);
	int diff = 0, cases = 0;
	for (unsigned seed = 1; seed <= 200; ++seed) {
		srand(seed);
		size_t n = 200 + rand() % 3000;
		for (size_t i = 0; i < n; ++i)
			in[i] = (rand() % 4 == 0) ? (uint8_t)rand() : "abcabcabd"[i % 9];
		lzma_options_lzma o; lzma_lzma_preset(&o, 1); o.dict_size = 1 << 16;
		lzma_stream e = LZMA_STREAM_INIT;
		if (lzma_microlzma_encoder(&e, &o) != LZMA_OK) return 2;
		e.next_in = in; e.avail_in = n; e.next_out = comp; e.avail_out = sizeof(comp);
		if (lzma_code(&e, LZMA_FINISH) != LZMA_STREAM_END) return 2;
		size_t csize = e.total_out, usize = e.total_in;
		lzma_end(&e);
		/* declare a smaller uncompressed size, as the API allows with uncomp_size_is_exact = false */
		for (size_t cut = 0; cut < 40; cut += 3) {
			if (usize <= cut) break;
			uint64_t t1, t2; size_t o1, o2;
			int r1 = decode(csize, usize - cut, sizeof(comp), &t1, &o1);
			int r2 = decode(csize, usize - cut, 1, &t2, &o2);
			++cases;
			if (r1 != r2 || o1 != o2 || t1 != t2) {
				if (diff < 5)
					printf("seed %u uncomp_size=%zu: all-at-once ret=%d total_in=%llu total_out=%zu | "
					       "byte-at-a-time ret=%d total_in=%llu total_out=%zu  DIFFERENT %s\n",
					       seed, usize - cut, r1, (unsigned long long)t1, o1, r2,
					       (unsigned long long)t2, o2, t1 != t2 ? "total_in" : "result");
				++diff;
			}
		}
	}
	printf("%d of %d (stream, declared size) pairs differ between the two slicings\n", diff, cases);
	return diff != 0;
}
