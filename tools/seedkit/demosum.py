import glob,os,re,sys
for f in sorted(glob.glob("/tmp/seed6/confirm/*.demo.broken.txt")):
    k=os.path.basename(f).split(".")[0]
    c=f.replace("broken","clean")
    def summ(p):
        if not os.path.exists(p): return "(missing)"
        t=open(p,errors="replace").read()
        rcs=re.findall(r"^rc=(\d+)",t,re.M)
        lines=[l for l in t.splitlines() if l.strip() and not l.startswith("$") and not l.startswith("rc=")]
        return "rc=%s | %s" % (",".join(rcs), " / ".join(x.strip()[:90] for x in lines[-2:]))
    print(k); print("   BROKEN:",summ(f)); print("   CLEAN :",summ(c))
