#!/bin/sh
# confirm.sh Cxx : for each seed N of property Cxx: apply in the worktree, build, run ctest, keep build dir as _build_N
P=$1
W=/tmp/seed6/$P
cd $W || exit 2
git checkout -q -- .
for N in 1 2 3; do
  D=/tmp/seed6/$P.out/$N
  [ -f $D/patch.diff ] || continue
  L=/tmp/seed6/confirm/$P-$N.log
  : > $L
  git checkout -q -- .
  if ! git apply $D/patch.diff 2>>$L; then echo "APPLY-FAIL" >> $L; continue; fi
  B=$W/_build_$N
  if [ ! -d $B ]; then cmake -G Ninja -S $W -B $B -DCMAKE_BUILD_TYPE=RelWithDebInfo >>$L 2>&1; fi
  if cmake --build $B -j6 >>$L 2>&1; then echo "BUILD-OK" >> $L; else echo "BUILD-FAIL" >> $L; git checkout -q -- .; continue; fi
  if ctest --test-dir $B -j6 --timeout 900 >>$L 2>&1; then echo "TESTS-PASS" >> $L; else echo "TESTS-FAIL" >> $L; fi
  git checkout -q -- .
done
if [ ! -d $W/_build_cleanref ]; then cmake -G Ninja -S $W -B $W/_build_cleanref -DCMAKE_BUILD_TYPE=RelWithDebInfo >/dev/null 2>&1; fi
cmake --build $W/_build_cleanref -j6 > /tmp/seed6/confirm/$P-clean.log 2>&1
echo done $P
