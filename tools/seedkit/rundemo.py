#!/usr/bin/env python3
"""rundemo.py Cxx N ['cmd template'] : run the seed's demonstration against _build_N (patched) and _build_cleanref (clean).
template placeholders: {B} build dir, {W} worktree, {X} compiled demo exe"""
import os, re, shutil, subprocess, sys
P, N = sys.argv[1], sys.argv[2]
tmpl = sys.argv[3] if len(sys.argv) > 3 else None
W = "/tmp/seed6/%s" % P
D = "/tmp/seed6/%s.out/%s" % (P, N)
def run(kind, B):
    work = "/tmp/seed6/demo_work/%s-%s-%s" % (P, N, kind)
    shutil.rmtree(work, ignore_errors=True)
    shutil.copytree(D, work)
    for fn in os.listdir(work):
        p = os.path.join(work, fn)
        if os.path.isfile(p) and (fn.endswith(".c") or fn.endswith(".sh") or fn.endswith(".py")):
            t = open(p, errors="replace").read()
            t2 = re.sub(r"%s/_build(?![\w])" % re.escape(W), B, t)
            t2 = re.sub(r"%s/(_build_clean|_clean|_build_ref|_ref)(?![\w])" % re.escape(W), "/tmp/seed6/%s/_build_cleanref" % P, t2)
            if t2 != t:
                open(p, "w").write(t2)
    out = open("/tmp/seed6/confirm/%s-%s.demo.%s.txt" % (P, N, kind), "w")
    def sh(cmd, to=900):
        out.write("$ %s\n" % cmd); out.flush()
        try:
            r = subprocess.run(cmd, shell=True, cwd=work, stdout=subprocess.PIPE, stderr=subprocess.STDOUT, timeout=to)
            out.write("rc=%d\n" % r.returncode); out.write(r.stdout.decode(errors="replace")[-6000:] + "\n")
        except subprocess.TimeoutExpired as e:
            out.write("rc=124\nTIMEOUT\n" + ((e.stdout or b"").decode(errors="replace")[-3000:]) + "\n")
        out.flush()
    cs = sorted(f for f in os.listdir(work) if f.endswith(".c") and f.startswith("demo"))
    exe = None
    for c in cs:
        exe = "demo_" + kind
        sh("cc -O1 -g -I%s/src/liblzma/api -I%s/src/liblzma -I%s/src/common %s %s/liblzma.a -lpthread -o %s" % (W, W, W, c, B, exe), 120)
    if tmpl:
        sh(tmpl.replace("{B}", B).replace("{W}", W).replace("{X}", "./demo_" + kind))
    elif os.path.exists(os.path.join(work, "demo.sh")):
        sh("sh demo.sh %s %s" % (B, W))
    elif exe:
        sh("./%s %s" % (exe, B), 600)
    out.close()
run("broken", "%s/_build_%s" % (W, N))
run("clean", "%s/_build_cleanref" % W)
