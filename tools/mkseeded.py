#!/usr/bin/env python3
"""tools/mkseeded.py <round dir> <round tag> <sweep log>

Assembles /verif/seeded/<tag>-<Cxx>-<N>/ from the deliverables of the seeding sub-agents (patch.diff, demonstration,
meta.json) after they were confirmed, adding what was confirmed and which checks report the change."""
import json, os, re, shutil, sys, glob

VERIF = os.path.dirname(os.path.dirname(os.path.abspath(__file__)))
root, tag, sweep = sys.argv[1], sys.argv[2], sys.argv[3]
caught = {}
cur = None
for line in open(sweep, errors="replace"):
    m = re.match(r"== (C\d\d)/(\d)", line)
    if m:
        cur = (m.group(1), m.group(2))
        caught[cur] = {"checks": {}, "note": None}
        continue
    if cur is None:
        continue
    m = re.match(r"(C\d\d) exit=(\d)", line)
    if m:
        caught[cur]["checks"][m.group(1)] = {"exit": int(m.group(2)), "keys": []}
        last = m.group(1)
        continue
    m = re.match(r"\s+(\S.*?)\s+@ (\S+)", line)
    if m and caught[cur]["checks"]:
        caught[cur]["checks"][last]["keys"].append(m.group(1))
    if line.startswith("no check fires"):
        caught[cur]["note"] = "no check fires"
    if line.startswith("patch does not apply"):
        caught[cur]["note"] = "patch does not apply to the current tree"
out_root = os.path.join(VERIF, "seeded")
os.makedirs(out_root, exist_ok=True)
n = 0
for d in sorted(glob.glob(os.path.join(root, "C??.out", "[0-9]"))):
    P = os.path.basename(os.path.dirname(d))[:3]
    N = os.path.basename(d)
    if not os.path.exists(os.path.join(d, "patch.diff")):
        continue
    dst = os.path.join(out_root, "%s-%s-%s" % (tag, P, N))
    shutil.rmtree(dst, ignore_errors=True)
    os.makedirs(dst)
    for fn in os.listdir(d):
        p = os.path.join(d, fn)
        if os.path.isfile(p) and os.path.getsize(p) < 300000 and not fn.startswith("demo_"):
            shutil.copy(p, os.path.join(dst, fn))
    meta = {}
    try:
        meta = json.load(open(os.path.join(d, "meta.json")))
    except Exception:
        pass
    conf = {}
    for kind in ("broken", "clean"):
        for cand in ("%s/confirm/%s-%s.demo.%s.txt" % (root, P, N, kind), "%s/confirm/%scur-%s.demo.%s.txt" % (root, P, N, kind)):
            if os.path.exists(cand):
                t = open(cand, errors="replace").read()
                conf["demo_%s_tail" % kind] = [l for l in t.splitlines() if l.strip()][-4:]
    logp = "%s/confirm/%s-%s.log" % (root, P, N)
    if os.path.exists(logp):
        t = open(logp, errors="replace").read()
        conf["build"] = "ok" if "BUILD-OK" in t else "FAILED"
        conf["tests"] = "19/19 pass" if "TESTS-PASS" in t else "FAILED"
    c = caught.get((P, N), {"checks": {}, "note": "not swept"})
    meta["confirmed_by_verif"] = conf
    meta["seed_id"] = "%s-%s-%s" % (tag, P, N)
    meta["checks_reporting_it"] = {k: v["keys"] for k, v in c["checks"].items() if v["exit"] == 1}
    meta["own_property_check_reports_it"] = P in meta["checks_reporting_it"]
    if c.get("note"):
        meta["sweep_note"] = c["note"]
    json.dump(meta, open(os.path.join(dst, "meta.json"), "w"), indent=1)
    n += 1
print("%d seeds written to %s" % (n, out_root))
