#!/usr/bin/env python3
"""Regenerates MANIFEST.json from the table below (kept valid at all times)."""
import json, os
V = os.path.dirname(os.path.dirname(os.path.abspath(__file__)))

NOTE = ("Trusted base: clang 14 front end + clang::CFG, tools/xzfacts.cc, sa/*.py engines, frozen instance tables "
        "in rules/*.py, spec/*.py transcriptions. Type-based aliasing; indirect calls via function-pointer slots. "
        "Nothing of /repo is executed. Only the named structural clauses are decided; the behavioural remainder "
        "of the property is NOT decided (see DESIGN.md section 4).")

CLAIMED = {
 "C02": dict(
  text="Writer/reader/specification agreement decided from the syntax trees: constant-folded offsets, lengths, CRC ranges "
       "and CRC positions of Stream Header/Footer on both sides equal the transcription of xz-file-format.txt; magic bytes; "
       "Backward Size and Block Header Size byte round-trip by evaluating the encoder's and decoder's expressions on values; "
       "Block Header flag bits map to the same fields, same field order and CRC range on both sides; the control bytes the LZMA2 "
       "encoder emits for its 8 flag combinations fall in the spec class with the same reset meaning, chunk sizes big-endian "
       "minus one (value-evaluated); provenance of Block sizes, Index/footer fields, check type, .lzma header. Conformance of "
       "whole streams under an independent decoder is NOT decided. Also (BLKOPT) compressed_size/uncompressed_size of the in/out Block options are reset on every path to lzma_block_header_size() in each function that starts a Block."
       + " Further rules: (FALLBACK) the uncompressed-chunk fallback of the LZMA2 encoder is entered exactly on the documented condition and resets state afterwards."
       + " (DICTROUND) dictionary-size rounding smear has every distance except 1; (BOUND) lzma2_bound in normal form n + 3*ceil(n/65536) + 1; SHA-256 structure rules of C14."
       + ' (DICTDECL) the match-finder window is derived from the declared dictionary size only.'
       + ' (REWIND) single-call coders restore the position on every error return; (UPD) as in C12.'
       + ' (WINDOW, READFIRST) as in C01/C06.'
       + ' (DRAIN) LZMA_STREAM_END of the LZMA1 encoder only after rc_encode() drained, as in C01; SHA-256 padding content as in C14.',
  technique="layout-fact extraction and comparison (encoder vs decoder vs spec), expression evaluation on sample values, finite-domain evaluation",
  ref="4/C02"),
 "C14": dict(
  text="Every entry of the CRC32/CRC64 slice tables (3072 values), the CLMUL folding and Barrett constants of both widths, "
       "the shuffle masks, the SHA-256 round constants and initial state, and check_sizes[] is compared with a value computed "
       "independently from the polynomial / FIPS 180-4 definitions (this is the only look the table-driven CRC path gets on a "
       "CLMUL machine); the SHA-256 Sigma/sigma macro expansions (all 96+32 sites) are evaluated as GF(2)-linear maps on the 32 "
       "basis vectors, Ch/Maj by truth table; schedule indices, 16+3x16 round structure, big-endian load and length; dispatch "
       "wiring of CRC resolvers and check.c. The CLMUL data path and the slice-by-N loops as functions of all inputs are NOT "
       "decided. Also (MASKW) no 64-bit size/address is ANDed with a mask complemented in 32 bits; (PATH) the alignment prologue of the generic CRCs cannot consume more than the size guard leaves, lzma_sha256_update recomputes the buffer offset per piece."
       + " Further rules: SHA-256 padding: finite-domain evaluation of lzma_sha256_finish for all 64 residues: an extra block is processed iff the residue is >= 56."
       + ' (FLOW) the Block coders update the check on every continuing path and finish it once; SHA length counter is 64-bit.'
       + ' SHA-256 padding content: concrete evaluation of lzma_sha256_finish for all 64 residues over an abstract buffer: every block handed to process() is message tail, 0x80, zeros, length; (STATEW) no narrowing cast of the 64-bit CRC64 state in the value assigned back to it.',
  technique="table comparison against independently computed definitions; GF(2)-linear and truth-table evaluation of macro-expanded expression trees",
  ref="4/C14"),
 "C01": dict(
  text="Path-shape and table clauses of losslessness, not the round trip itself: (ADV) in each of the ten match-finder "
       "find/skip functions every path (per call / per skipped byte) advances the window exactly once via move_pos or "
       "move_pending, move_pos only after the chain/tree slot of the current cyclic position and all hash tables of that "
       "finder were updated with the current position, move_pending only on untouched paths, find and skip siblings update "
       "the same hash slots, lzma_mf_find counts read_ahead once; (NORM) move_pos tests read_pos+offset==UINT32_MAX after "
       "every increment and calls normalize(), which rebases hash[] and son[] with one rule over their full counts and moves "
       "offset by the same subvalue; the window position fields of lzma_mf have a frozen writer set; (RESET) "
       "lzma_lzma_encoder_reset and lzma_decoder_reset initialise every probability member (46 members incl. the length "
       "coders) over all array dimensions, state, reps and range coder, with the same initial value and mask formulas on "
       "both sides; (TAB) encoders[]/decoders[] list the same filter IDs and the property sizes written are the sizes "
       "accepted. NOT decided: LZ parsing, prices, range coder arithmetic, window arithmetic, chunk limits, output-size "
       "limiting, dictionary wrap, and therefore losslessness for all inputs/configurations. Also (LZMA2) lzma_lzma_encoder_reset() is called in lzma2_encode exactly when need_state_reset is set, and the header writer derives and clears the same flags."
       + " Further rules: (ORDER) lzma_lzma_encode commits its position bookkeeping before the in-loop rc_encode() can suspend, and the LZMA2 history reserve is applied after the LZMA encoder filled in lz_options; (OUTPOS) rc_shift_low and rc_shift_low_dummy advance *out_pos in single steps, each behind `*out_pos == out_size`; the LZ/LZMA decoder dictionary sibling rule of C03."
       + " Round-3 rules: (WINDOW) hash-chain/binary-tree walkers stop at delta >= cyclic_size; (LIMITS) the LZMA2 chunk cut-off leaves OPTS+1 bytes; (DICTFRESH) dict->full is recomputed after dict->pos moved."
       + " LIMITS now derives the needed cut-off margin as OPTS + RC_SYMBOLS_MAX (read-ahead of one optimum run plus the output of one symbol)."
       + ' (DRAIN) a BCJ/simple coder reports the end only after its buffer was drained; the C12 UPDATE and C02 BOUND rules are evaluated here too.'
       + " (CRC/READFIRST) the Index encoder's CRC32 and the re-used LZMA encoder's state (C06 rules)."
       + ' (DELTA) the Delta encoder/decoder loop rules of C15; EMITSTATE also requires that a member emitted by rc_shift_low is overwritten before the function can return with the output full.',
  technique="path-sensitive event-count dataflow on the CFG (exactly-once / must-precede); post-dominator must-follow; field-coverage (E-COVER) with loop-bound vs array-dimension comparison; who-may-write table; table agreement",
  ref="4/C01"),
 "C20": dict(
  text="Quoting/eval/sed discipline of xzgrep, xzdiff, xzless, xzmore decided on a shell AST (own POSIX sh parser): (QUOTE) "
       "taint from the positional parameters through assignments and command substitutions; every tainted expansion in a "
       "command word, for-list or redirection is double-quoted (deliberately split variables are listed and proven "
       "untainted), echo never prints tainted data, printf formats are constants, tainted test operands only in 2/3-arg "
       "forms; (EVAL) every eval argument is a constant, a single-quoted deferred quoted expansion or a double-quoted string "
       "expanding only escaped accumulators; every store to an accumulator (grep, operands, optarg, arg2, cmp, the in-place "
       "re-quoted option) uses '...' under a case arm preceded by an arm that catches every value containing a quote, or "
       "the printf/expr ...X | sed \"$escape\" pipeline after an opening quote; $escape is the exact constant program; (SED) "
       "the label fallback escapes the s delimiter, & and backslash, continues lines, under a case testing exactly those "
       "characters, constant on sed failure; (OPT) -- before every file operand; (STATUS) status captures receive only "
       "`echo $?`, xzdiff checks readability first and maps decompressor failure to 2. NOT decided: equality of output and "
       "exit status with grep/diff/cmp, behaviour of sed/expr/grep themselves. Also: xzdiff decompresses each operand with the decompressor chosen from its own suffix; xzgrep's exit status accumulator only moves under a test of its current value."
       + " xzdiff's three suffix lists are identical."
       + " (STATUS) xzgrep's result accumulator is evaluated over all (res, r) pairs; xzdiff selects a decompressor for each operand from its own name and keeps stdin for a '-' operand."
       + " (STATUS decomp-failure) a failed decompressor makes the file's status >= 2 for every grep status."
       + ' (STATUS xzdiff:status-loop, sigpipe-not-ignored).'
       + ' (QUOTE xzless:lessmetachars; STATUS xz:empty-name-is-error).'
       + " xzgrep's name dispatch evaluated for every installed link name (XZGREP_LINKS of CMakeLists.txt); xz does not make EPIPE an error status of its own (the scripts map every non-signal status of xz to 2); (FMT) xz recognises the .lzma headers liblzma decodes.",
  technique="shell AST taint and quoting-context analysis; idiom (typestate) rule on accumulator stores; case-arm coverage of the quote character; constant evaluation of the sed programs",
  ref="4/C20"),
 "C15": dict(
  text="Structural and finite-domain clauses of BCJ/delta invertibility and format stability: (SYM) in every *_code() the "
       "direction flag only selects src+pc vs src-pc (or negates pc) -- detection, gating (incl. the ARM64 ADRP range gate), "
       "stride and stores are shared by both directions; (OPC) the instruction-detection predicates of ARM, Thumb, PowerPC, "
       "SPARC, x86 (opcode, MS byte, prev_mask gate, mask bookkeeping, history saved) and ARM64, and the IA-64 template table, "
       "evaluated over every value of the bytes they read, equal ISA reference predicates; (BITS) an exact bit-routing "
       "evaluation of the gather (instruction bytes -> address) and scatter (address -> stored bytes) code of ARM, Thumb, "
       "PowerPC, SPARC, x86, ARM64 BL/ADRP and RISC-V JAL (both directions) equals reference routing tables that are checked "
       "to be mutually inverse; (WIN/STRIDE) look-ahead, alignment, stride and pc bias; (ONE) one-shot API state/direction/"
       "alignment; (DELTA) the three delta loops index the history identically, store the right byte in the right order, "
       "props dist-1/+1; (PROTO) simple_code returns STREAM_END only at end of input, advances now_pos by the filtered "
       "count, releases the tail unfiltered at EOF. NOT decided: the round trip for all inputs and slicings as such, "
       "RISC-V AUIPC pair arithmetic, IA-64 slot arithmetic, x86 prev_mask evolution as a function of all inputs. Detection predicates are evaluated by symbolic bit evaluation of the path conditions (independent of the statement shape). Also (INITCONS) now_pos / history are re-initialised on every init path."
       + " Further rules: (READFIRST) delta history/pos and BCJ buffers a coding function reads first are reset by every OK init path; IA-64 slot predicate equals opcode 5 / btype 0 on all assignments of the relevant bits; call_filter on coder->buffer does not depend on end_was_reached."
       + " (SCAN) all nine scan loops visit exactly the positions p with p + window <= size."
       + ' (PROTO compact) the BCJ wrapper moves filtered and unfiltered positions by the same amount when it compacts its buffer.'
       + ' (POST) delta coders transform what the next coder wrote on every way out.'
       + ' compact-before-reset, eof-needs-all-input (copy_or_code sets end_was_reached only through *in_pos == in_size), DELTA update-keeps-state (delta_encoder_update only forwards).',
  technique="AST/CFG shape rule for direction symmetry; exhaustive finite-domain evaluation of branch predicates from the CFG; exact bit-routing abstract evaluation of shift/mask/or code vs reference tables; edge-cut must-pass",
  ref="4/C15"),
 "C19": dict(
  text="Structural clauses of xz naming/overwrite/metadata safety: the compress and decompress suffix tables agree (every "
       "suffix added or refused when compressing is removed when decompressing, defaults map to the bare name, .txz/.tlz to "
       ".tar), test_suffix/suffix_set guards, built-in suffixes before the custom one; finite-domain evaluation of "
       "io_open_src_real for all 8 combinations of --stdout/--force/--keep: O_NOFOLLOW exactly when none is set, and every "
       "success path passes the directory, regular-file, setuid/setgid, sticky and hard-link refusals that apply; exhaustive "
       "evaluation of io_copy_attrs' two permission expressions over all 4096 mode values (never broader, no special bits); "
       "owner->group->mode->timestamps from the source; --stdout/--test imply --keep; exit status mapping. Name invertibility "
       "for all byte strings is NOT decided. Also (SUFPOS) test_suffix examines src_name[src_len - suffix_len - 1] and compares exactly the last suffix_len bytes."
       + ' (ATTR) the full permission bits are copied only when the group could be set.'
       + ' (SUF custom-suffix-always-tested; ATTR group-compared-with-target).'
       + ' (OPTMAP) long options map to their documented short synonyms; (ORDER) attributes are copied after the last write.'
       + ' (SKIPSTATUS) every `return NULL` of compressed_name/uncompressed_name passes message_warning/message_error; (ATTR) no write to the target after io_copy_attrs in io_close, the CMake probes for futimens/futimes/... include the declaring header; (OPTMAP) every OPT_* long option is named after its enumerator.',
  technique="table joins, finite-domain abstract evaluation over option combinations and all mode values, edge-cut must-pass",
  ref="4/C19"),
 "C18": dict(
  text="Structural clauses of tool/library agreement: write-before-fail on the finite-domain (ret-tracking) product graphs "
       "of xzdec's and lzmadec's uncompress() (both preprocessor variants analysed as separate targets) and xz's coder_normal; "
       "uncompress() returns normally only with LZMA_STREAM_END (lzmadec also requires no trailing garbage), read/write errors "
       "exit with failure; xz maps errors to E_ERROR, only LZMA_UNSUPPORTED_CHECK to a warning, never downgrades the status; "
       "provenance rules of the sparse-file optimisation (exact accounting, hole before data, tail, decompress mode, regular "
       "file at end, O_APPEND restored); decoder flag construction. Byte equality across sinks/thread counts is NOT decided. Also: a zero-length write never reaches the lseek that materialises a pending hole; the decoder flags xz sets are exactly TELL_UNSUPPORTED_CHECK, CONCATENATED, IGNORE_CHECK (no FAIL_FAST)."
       + " is_sparse examines every word of the buffer; coder_normal success rules of C17."
       + " The final sparse hole is materialised also when decoding failed (standard output is kept)."
       + ' (SPARSE position-probe) sparse mode is enabled for stdout only after the current position was compared with the file size; (PERFILE) per-file flags are reset for every file.'
       + ' (FMT) xz recognises exactly the .lzma files the library decodes.'
       + ' (STATUS) as in C17.'
       + " is_sparse coverage is computed per byte for any member width/step/bound; (FLUSHMODE) mytime_get_flush_timeout returns a timeout only with opt_mode == MODE_COMPRESS; (MTERR) the threaded decoder's pending error only after the queue was drained (C07); .lzma size bound (C16).",
  technique="finite-domain path-sensitive reachability (edge/block cuts), dominance and provenance rules over call arguments",
  ref="4/C18"),
 "C17": dict(
  text="Structural data-safety clauses of xz's file handling: finite-domain path-sensitive analysis of `success` through "
       "io_close with each primitive forced to fail (failed close/sync/sparse-tail write never lets io_close_src see success), "
       "call order attrs -> sync -> close target -> close/unlink source, unlink(src) only with success && !keep after close, "
       "junk target removed on failure, both fsyncs; coder_normal sets success only after LZMA_STREAM_END, a successful final "
       "write and the trailing-input test; unlink/open who-may-call rules with folded O_CREAT|O_EXCL/0600 constants and the "
       "dev/inode comparison; signal handlers' async-signal-safety closure and sig_atomic_t writes, block/unblock pairing, "
       "signals_exit last; every failure return of the I/O layer sets the exit status (known finding: EPIPE branch of "
       "io_write_buf). File-system state after kill -9 is NOT decided. Also (RESULT) no bool result of an xz I/O helper is discarded; (PERFILE) file-scope state that coder_init sets conditionally is reset for every file; (EXIT) E_ERROR is sticky in set_exit_status."
       + " Further rules: every probe result (is_tty, stat) that decides skipping a file is tested."
       + " (EOF) src_eof only where read() returned 0."
       + " (NOFATAL) no message_fatal() is reachable while the incomplete target is open; (EINTR) an EINTR retry on a stdio stream clears its error indicator."
       + ' (SIG handled-signals) every termination signal xz can get while a target is open has the clean-up handler.'
       + ' (STATUS message_error/message_warning record the status on every path).'
       + ' (STATUS) tuklib_exit stores err_status whichever way show_error is; (SPARSE) is_sparse examines every byte (C18); (OPTMAP) --no-sync/--no-sparse are dispatched through their own enumerators.',
  technique="finite-domain path-sensitive dataflow, must-pass/dominance rules, call-graph closure, who-may-call",
  ref="4/C17"),
 "C12": dict(
  text="Must-pass and dominance rules on the encoder state machines and update functions: a finished Block gets its Index "
       "Record (with the sizes of that Block) before the next Block starts; LZMA_SYNC_FLUSH never ends a Block; no Block or "
       "Block Header is started without input (no empty Block after a flush); the Index starts only on LZMA_FINISH; LZMA1 and "
       "BCJ refuse SYNC_FLUSH before any effect; LZMA2 reports flush complete only with no unencoded input and writes the end "
       "marker only for FINISH; lz_encode resets mf.action on every non-OK return; pending bytes replayed only with input; "
       "update functions restricted to their safe states, validate before storing, and cannot change Filter IDs; action "
       "conversion table. That the flushed prefix decodes to the input is NOT decided. Also (BTFLUSH) binary-tree match finders defer to move_pending() during LZMA_SYNC_FLUSH; (PROPS) lzma_lzma_encoder_reset recomputes the lc/lp/pb masks; stream_encoder_update clears block_encoder_is_initialized before trying a new chain."
       + " get_thread hands every woken worker the cached filter chain."
       + ' (MTFLUSH) the threaded encoder reports a flush complete only when the output queue is empty and LZMA_FINISH only after the Index was encoded.'
       + " (FSM) lzma_code's transition relation (C11) is evaluated here too: a completed flush/barrier returns to ISEQ_RUN."
       + ' (STRONG) the update functions replace the chain only after the copy succeeded (C10 rule).'
       + ' (BLKOPT, CHAINEND).'
       + ' (LASTEND) delta_encode as last coder: every return passes the `action != LZMA_RUN && *in_pos == in_size` decision; (SIZEKEY) LZ encoder arrays kept only with unchanged final size keys (C10). (NULLOPT) interprocedural unchecked-dereference summary: the entry points of the filter tables test `const void *options` against NULL before it is dereferenced directly or in a callee.',
  technique="must-pass-through (edge cut) on finite-domain product graphs, dominator rules, table comparison",
  ref="4/C12"),
 "C09": dict(
  text="Must-pass (edge cut) rules on the resume-aware product graphs of the container decoders: every allocating call "
       "for a new Block / Index / member (block decoder init, filter init, index prealloc/append, worker preparation) is "
       "preceded on all paths by the usage > limit comparison, threaded mode is chosen only within memlimit_threading, and "
       "LZMA_MEMLIMIT_ERROR is returned only in the restartable state; the seven memconfig functions write both outputs on "
       "every successful path and store a new limit only after the non-zero and not-below-usage tests; inits store max(1, "
       "limit); filter tables' memusage column; xz returns from coder_set_compression_settings only with usage <= limit or via "
       "the documented soft-limit escape. That estimates bound real allocations is NOT decided. Also (TERMS) the threaded decoder's admission test, cache-trimming tests and memusage report contain every accounting counter they are documented to contain; the file-info decoder passes memlimit minus the memory of the Indexes decoded so far; xz's single-threaded fallback calls hardware_threads_set(1) before re-estimating."
       + " Further rules: direct-mode clear_cache/threads_end before the single-thread decoder allocates; lz decoder reallocates the dictionary only when the size differs; memusage is reported on LZMA_MEMLIMIT_ERROR."
       + " xz compares the usage with the limit of the current operation mode."
       + " (NEEDED) the amount compared with the hard limit before LZMA_MEMLIMIT_ERROR is what memconfig reports; (CLAMP) an order between limit members established by a clamp is re-established at every later store; (STALENEXT) memconfig uses a lazily initialised nested decoder only behind a test of coder->sequence."
       + " (SATURATE) sums of memory-usage figures that may be UINT64_MAX are saturated."
       + ' (USAGE) memconfig callbacks report the figure the limit was checked against; (TERMS) LZMA2 history reserve and the MT-encoder default limit are part of the sums compared with the limit.'
       + " (OPTPATH) every store to lzma_lz_options on an encoder's init path has a live counterpart on its memusage path."
       + ' (FREEFIRST) a cached buffer replaced because its size key changed is freed before its replacement is allocated; (NEEDED) lzma_stream_buffer_decode reports the need through *memlimit.'
       + ' (XZ limit-by-mode) every decoding mode of xz uses --memlimit-decompress; (PENDING) lzma_memlimit_set counts a Block waiting to be started; (KEPT) a cached worker exempted from freeing is reconciled with the worker actually obtained.'
       + ' (SIZEKEY) as in C10.'
       + ' (OUTQLOOP) the condition of every `while (...) helper(outq)` loop of outqueue.c reads a lzma_outq member the helper modifies. (NULLOPT) as in C12, for the memusage entry points.',
  technique="must-pass-through (edge cut) on finite-domain product graphs, table joins, dominance rules",
  ref="4/C09"),
 "C04": dict(
  text="Structural robustness clauses for input-driven code: the bounds fact pos < size is available (must-dataflow on the "
       "path-sensitive product graph, so disjunctive loop guards keyed on the coder state are exact) at every in[pos] access of "
       "every (in, pos, size) triple of the decoders and parsers; property bytes read only after the props_size test; copies "
       "into fixed-size members bounded by constants or proven ranges; path-sensitive interprocedural return-code sets prove "
       "that no exported function can return an internal code and no coder returns LZMA_BUF_ERROR itself (multi-call VLI calls "
       "only with a non-empty buffer); the record allocated for each coder is the one its slot functions cast to; allocation "
       "results are NULL-tested. Absence of ALL memory errors, arithmetic UB and termination are NOT decided. Also (ALLOCSZ) input-controlled element counts in C1 + n*C2 allocation sizes are clamped so the size cannot wrap; the LOCALOWN (no leak on rejected Block Headers) and PROGRESS (worker publishes progress unconditionally) rules shared with C10/C07."
       + " Further rules: BUF_ERROR from lzma_index_hash_decode cannot escape stream_decode/stream_decode_mt (call only with *in_pos < in_size)."
       + " (WAIT) lost-wake-up rule of C07 on the threaded decoder; dict_get/dict_repeat sibling and DICTFRESH rules."
       + " (ALLOCSZ lower bound) a member used as the element count of a header+array allocation whose element 0 is written at once is never stored as 0."
       + " (DISTVALID) every use of a decoded match distance is dominated by the dictionary-validity test; (SEEK) rules of C13 for the file-info decoder's seek target."
       + ' (READFIRST) no coding function reads a member that nothing in the session stored (all coder records).'
       + ' (NULLARITH) no pointer arithmetic on a possibly-NULL buffer; (LOCALALLOC, OPTNULL, SHA, READFIRST).'
       + ' SHA-256 padding content: no store outside the 64-byte block for any residue (C14).',
  technique="must-availability dataflow on a finite-domain product graph, interprocedural return-code sets with slot typestate, type-agreement joins",
  ref="4/C04"),
 "C11": dict(
  text="The transition relation of lzma_code() is extracted by exhaustive finite-domain abstract evaluation of its CFG "
       "(8820 abstract cases: internal sequence x action incl. out-of-range x supported flag x avail_in changed x "
       "allow_buf_error x every lzma_ret the coder can return x progress) and equals the protocol transcribed from base.h "
       "(PROG_ERROR rules, sticky STREAM_END, BUF_ERROR only on the second no-progress call, non-fatal set, fatal -> ISEQ_ERROR); "
       "next/avail/total updates are structurally tied to the positions passed to the coder; per-initialiser action sets equal "
       "the documented ones. Does NOT decide that no memory outside the buffers is touched. Also (OUTIDX) the bounds fact *out_pos < out_size is available at every out[*out_pos] store of the streaming encoders."
       + " Further rules: lzma_index_hash_decode is called only with input available (shared with C04)."
       + " (RESTORE) after a single-call function restored *in_pos/*out_pos the position is not read again (11 sites)."
       + ' (UNINIT) every access through strm->internal in a public function is preceded by its NULL test or by lzma_strm_init().'
       + ' (TIMEOUT) a timed-out wait of the threaded coders is reported as LZMA_TIMED_OUT.'
       + ' (INITFAIL) a failed public initialiser leaves no old coder active; (IDX) bounds fact at every buffer access.'
       + ' (NOINPUT) lzma2_decode enters its loop in SEQ_LZMA without input whatever else holds.',
  technique="exhaustive finite-domain abstract interpretation of the wrapper's CFG vs a protocol table; structural def-use rules",
  ref="4/C11"),
 "C16": dict(
  text="Finite-domain abstract evaluation of the .lz dictionary-size byte (256 values, exhaustive) and of the auto "
       "decoder's first-byte dispatch (256 values) against spec tables; .lz magic/versions/lc-lp-pb/footer sizes; effect rule "
       "for .lz trailing data (mismatch after the first member ends the stream without consuming the byte, FORMAT_ERROR at the "
       "first member, end only with LZMA_FINISH); .lzma header field widths and byte order, picky-only heuristics, EOPM allowed "
       "with known size; auto SEQ_FINISH rules; xz's sniffers use liblzma's magic bytes. Stream Padding rule is decided under "
       "C05. Decoded content is NOT decided. Also (RESUME) the liveness/save-restore rule on the .lzma/.lz/auto decoders; (INITONCE/INITCONS) the format decoder is initialised once and a re-used decoder starts like a fresh one."
       + " Further rules: auto decoder goes to SEQ_FINISH only for .lzma; picky mode accepts exactly 2^n and 2^n+2^(n-1) (smear distance set); .lz header bytes are counted in member_size before any non-fatal return; (READFIRST) as in C06."
       + " (STALENEXT) as in C09."
       + ' (C17-FAIL) xz accepts a .lzma/raw stream only if the one-byte probe finds nothing after it.'
       + " (XZ lzma-dict-size-set) xz's .lzma heuristic accepts the same dictionary sizes as liblzma; (ACCUM) Stream Padding length survives slicing."
       + ' (ALONE no-get_check, known-size-kept; XZ rewind-unconditional).'
       + " (XZ) xz's bound for a known .lzma uncompressed size equals liblzma's; (LZMADEC) lzmadec's trailing-garbage test as in C18.",
  technique="finite-domain abstract interpretation vs spec tables, effect rules and must-pass rules on the product graph, cross-TU table agreement",
  ref="4/C16"),
 "C03": dict(
  text="Exhaustive finite-domain abstract evaluation (on the syntax tree/CFG, nothing executed) of the LZMA2 control-byte "
       "decision (256 values x need_properties x need_dictionary_reset = 1024 cases) and of the pure property-byte decoders "
       "(LZMA2 dictionary byte, lc/lp/pb byte; 256 values each) against independently written spec tables; rejection "
       "obligations (guard present and its violating edge returns the error code) for reserved bits, VLI rules, Filter IDs, "
       "chain rules and chunk/stream end conditions; every state enumerator of 12 decoder machines has a reachable case. "
       "Does NOT decide that accepted streams decode to the specified bytes. Also (DICTRESET) lz_decoder_reset() re-initialises every lzma_dict member that decoding modifies; (RESUME) the liveness/save-restore rule of C06 applied to the decoder functions."
       + " Further rules: (BLOCK) the block_decode obligations of C05; (RESET) the probability reset rule of C01 on the decoder."
       + " (SEQLABEL) each suspension of lzma_decode stores the state whose case label it sits under; (FASTSLOW) both copies of the symbol decoder expand literal_subcoder identically; (DICTFRESH)."
       + ' (DICTFRESH) a helper that copies into the dictionary recomputes dict.full.'
       + ' (READFIRST) decoders and filters start from what their init function stores.'
       + " (SHA) C14's SHA-256 structure rules."
       + " (BCJBUF) compaction of the BCJ wrapper's buffer moves pos/size by the discarded amount, evaluated before pos is reset (shared with C15).",
  technique="finite-domain abstract interpretation of decision expressions vs spec tables, guard obligations, reachability on the product graph",
  ref="4/C03"),
 "C07": dict(
  text="Lock discipline of the threaded decoder decided by a must-lockset dataflow on the path-sensitive product graph "
       "(mythread_sync's loop variables are tracked, so lock regions are exact): every access to each shared field of the "
       "frozen protected-field table happens under its mutex or under a re-verified structural exception (pre-create, post-join, "
       "idle thread, quiescent state, owner read); documented-mutex outqueue calls; lock order M->T; every wait re-tests shared "
       "state before unlocking; every write to a wait-predicate field is followed by a signal; exit->join->free; the "
       "CVE-2025-31115 worker rules; pending error only after the queue drained. Found the unlocked progress_in update (fixed). "
       "These are necessary conditions; absence of all races/deadlocks and output equality are NOT decided. Also (STOPACK) the worker never overwrites THR_EXIT; (QUIESCE/INITCONS) re-initialisation stores to worker-visible members only after threads_end and initialises session members on every path; (ACCT) amounts added to mem_in_use equal the per-thread amounts the worker subtracts and those are main-thread-only; (PROGRESS) partial-output enabling and progress publication are controlled by exactly the documented conditions."
       + " Further rules: worker-wait: the main thread waits only while a worker can still make progress; STOPACK/QUIESCE as in C08."
       + " (WAITARG) states that cannot consume input pass waiting_allowed = true; (OUTQRESET) lzma_outq_init resets read_pos."
       + " PROT also rejects contradicting lock-free excuses (an 'only this thread writes it' read next to a worker store): one known finding (partial_update)."
       + ' (WAITPRED) every field whose writers signal a condition is tested by a wait predicate on that condition.'
       + ' (IGNCHK) the threaded decoder stores LZMA_IGNORE_CHECK into the Block options after the Block Header decoder reset it.',
  technique="must-lockset dataflow over a finite-domain product graph, protected-field table, must-pass rules",
  ref="4/C07"),
 "C08": dict(
  text="Same lock-discipline engines on the threaded encoder (protected fields, lock order, wait loops, signal-after-write, "
       "join-before-free) plus must-pass rules of the main loop: Index Records appended only for Blocks that lzma_outq_read "
       "reported finished and with exactly its sizes; FULL_FLUSH complete only with an empty queue; FINISH only after the "
       "Index encoder finished; worker errors reported through worker_error(). Found the early thread_error reset on "
       "re-initialisation (fixed). Schedule-independence of the output bytes is NOT decided. Also (STOPACK) a stopped worker reports idle only after its last access to coder-mutex data and never overwrites THR_EXIT; (QUIESCE) the init function stores to worker-visible members only after threads_stop/threads_end; (INITCONS) members (threads_free, thr, ...) initialised on some OK paths are initialised on all."
       + " Further rules: progress-transfer-atomic: a finished worker's progress moves from the per-thread to the coder totals in one critical section."
       + " (SIZEKEY) coder->block_size changes only together with the workers' input buffers; (OUTQRESET); get_progress takes one snapshot under coder->mutex."
       + " (WAITPRED) as in C07: the worker error flag is part of wait_for_work()'s predicate."
       + ' (ERR progress-zero-before-free) a worker returning to the free list has zeroed its counters; (BOUND) as in C02.'
       + " (READFIRST, SIZEKEY) coders re-used by workers start each Block from their init function's stores; size keys are final when compared."
       + ' (HDR) Block Header layout rules of C02 (every worker Block starts with lzma_block_header_encode into a recycled buffer); (FSM) lzma_code transition relation of C11 (FULL_BARRIER keeps its own state).',
  technique="must-lockset dataflow over a finite-domain product graph, protected-field table, must-pass rules",
  ref="4/C08"),
 "C10": dict(
  text="Ownership discipline decided on the AST/CFG of all liblzma units: every allocator-owning member of each coder record "
       "(incl. records embedded by value) is released by the end function stored with it; freed-alias dataflow: no persistent "
       "pointer is left dangling at a return after lzma_free (found the double free in stream_decoder_mt_init, now fixed); every "
       "allocation result is NULL-tested before dereference; public stream inits go through lzma_next_strm_init; no lzma_ret "
       "result is dropped; strong-guarantee APIs store nothing caller-visible before failing. Does NOT decide allocation balance "
       "for every failing k at run time. Also (INITORD) members released by end() are initialised before any return after next->coder is published; (CACHEKEY) a size key of a cached allocation is updated only after the allocation succeeded; (LOCALOWN) filter options held in function-local arrays are freed or transferred on every path."
       + " Further rules: (ALIAS) a freed member is cleared or overwritten before any path can free it again, with the callers that clear it listed."
       + " (SIZEKEY) a member that gives the allocated size of a kept buffer changes only with the buffer (7 pairs discovered from allocation sites); CACHEKEY fail-path: the key is invalidated when the re-allocation fails."
       + " (SYNCEND) every mutex/condition variable initialised for a coder is destroyed by its end function or by the joined worker."
       + ' (LOCALIDX) an index allocated by a function is freed on each of its failing paths; (LOCALOWN) lzma_raw_coder_init frees the partially built chain on failure.'
       + ' (REOWN) on the re-use path of an init function an owned member is released before it is overwritten.'
       + ' (LOCALALLOC, LOCALCODER, STRM fail-frees, REWIND).'
       + ' (DEEPFREE) no lzma_free() of a lzma_index/index_stream on a path after something was appended to it.',
  technique="ownership/effect dataflow over clang CFGs, field-coverage joins over record layouts, unused-result rule on resolved callees",
  ref="4/C10"),
 "C13": dict(
  text="Structural clauses of the Index/file-info APIs decided on the AST/CFG: dup functions copy every semantic member "
       "(found lzma_index_dup dropping 'checks', now fixed); init functions initialise every member; the aggregate counters are "
       "updated together by append and combined by cat; append/cat/stream_padding/stream_flags make no caller-visible store on "
       "any path ending in an error return (product-graph effect analysis, restore idiom recognised); every format limit has "
       "its guard; iterator never keeps the reallocated rightmost group; file_info seek target only decreases under a "
       "dominating bound check. Does NOT decide tree balancing, locate results or size arithmetic. Also (SEEKSTATE) file_info_decode advances coder->sequence after every compound update of its position bookkeeping before it can return LZMA_SEEK_NEEDED; (PROV) Block numbers derive from the Stream's Record count, xz --list reads the Check at total_size - check size."
       + " Further rules: (APPLY) padding found / bytes used in one call are applied to stream_padding etc. on every non-fatal way out; PROV also: number-base, totals line sums lzma_index_file_size."
       + " (IDXDEC) index_decode ends only through its checks; (TREEWALK) no link member read after index_tree_append; (CURPOS) file_cur_pos advances only by application input."
       + " (ITERSTATE) the iterator encodes 'Stream without Record group' with its own method value."
       + ' (TOTALS) lzma_index_append bounds the running totals it maintains.'
       + " (CRC) the Index decoder's running CRC32 covers exactly the bytes before the CRC32 field; (ITER nonempty-base); (INITCONS/READFIRST) for the file-info and Index decoders."
       + ' SEEKSTATE now counts calls of helpers that return LZMA_SEEK_NEEDED (reverse_seek) and is evaluated from the state dispatch; (FSM) lzma_code leaves ISEQ_FINISH after LZMA_SEEK_NEEDED (C11).',
  technique="field-coverage and effect-ordering dataflow on the product graph, dominator-based guard rules, who-may-write",
  ref="4/C13"),
 "C05": dict(
  text="Edge-cut rule on the resume-aware (CFG block x finite state) product graph of every container decoder "
       "(stream, threaded stream, block, block header, stream header/footer, index, index hash, lzip): after deleting the "
       "passing edges of the branches that perform each validation the formats demand (magic, all CRC32s, sizes, Index "
       "hash, Backward Size, header/footer flags, Check, .lz footer) no success exit is reachable from the initial state; "
       "padding bytes compared on consumption; LZMA_STREAM_END only from terminal states. A deleted or weakened check is "
       "reported with the success exit it leaves unguarded. Does NOT decide that payload corruption is caught by the Check. Also: sizes from the Block Header are compared before they are overwritten with the counted sizes; each decoder flag member is derived from the flag constant of the same name; Backward Size is expanded in 64-bit arithmetic."
       + " Further rules: (ACCUM) counters a decoder state tests accumulate across calls; (INITCONS) a re-used container decoder starts like a fresh one."
       + ' (IGNCHK) lzma_block_header_decode resets ignore_check on every OK path.'
       + ' (SHA; XZSTATUS: message_error records the exit status on every path).'
       + ' (IGNCHK) lzma_block_decoder_init reads block->ignore_check only on the version >= 1 side; both stream decoders store block_options.ignore_check after lzma_block_header_decode() on every path that uses the options.',
  technique="must-pass-through (edge cut) on a finite-domain path-sensitive product graph with resume edges; interprocedural return-code sets",
  ref="4/C05"),
 "C06": dict(
  text="Static necessary conditions of slicing independence, decided on every path of the CFG: (RESUME) every local of "
       "every resumable coder function that can carry a value across a suspension has a restore/save pair with coder "
       "state (found the eopm_is_valid defect, now fixed); (CRC) running CRC32 of the Index codecs updated on every "
       "non-fatal return after the position advanced; (DET) no nondeterminism source reachable from coder code. "
       "Does NOT decide output equality across slicings in general. Also (END) resumable encoders return LZMA_STREAM_END only from their final state; (SLICE) size-mismatch errors of the Block decoder only when the other buffer had room; (INITCONS) a session member initialised on some OK paths of an init function is initialised on all; (INITONCE) coder->sequence is advanced before any non-fatal return that follows a nested coder initialisation."
       + " Further rules: (READFIRST) every member a coding function can read before storing to it is stored by the init function on all OK paths (whole-record, 109 instances); (APPLY) an amount measured in one call is applied to its persistent member on every non-fatal way out; (ACCUM); (PROV) match-finder window geometry keeps after_size + match_len_max bytes ahead; (END/SLICE) Block encoder ends only after the Check was copied."
       + " (SEQLABEL) as in C03."
       + " (OUTGUARD) a decoder's state loop is not guarded by output space when some state needs none."
       + ' (ENCRESET) lzma_lzma_encoder_reset() stores to every counter that triggers recomputation of a price table (the tables are caches of the probabilities).'
       + ' (EMITSTATE) rc_shift_low carries its loop state in rc members only; (CRC field-not-hashed) bytes of the CRC32 field are never hashed.'
       + ' (STRMAP) the textual form of a filter chain covers the whole option map; MEMLIMIT_ERROR returns keep the running CRC32 consistent.'
       + ' (SHA/PATH) the Check value does not depend on how update calls slice the data.'
       + ' (BCJCANON) BCJ Filter Properties: start_offset == 0 takes the path of options == NULL in both props functions; (SEEKSTATE) as in C13; (NOINPUT) as in C11; BCJ compaction and eof-needs-all-input as in C15.',
  technique="liveness + reaching definitions over resume labels (clang CFG), finite-domain product-graph dataflow, call-graph reachability",
  ref="4/C06"),
}

NA_REASON = {}
for i in range(1, 21):
    pid = "C%02d" % i
    if pid not in CLAIMED:
        NA_REASON[pid] = "not claimed yet: structural rules for this property are still being built (see DESIGN.md section 4 for the planned clauses)"

def main():
    checks = []
    for pid, c in sorted(CLAIMED.items()):
        checks.append({
            "property_id": pid,
            "quick_cmd": "bin/check %s --tier quick" % pid,
            "thorough_cmd": "bin/check %s --tier thorough" % pid,
            "evidence_file": "evidence/%s.json" % pid,
            "replay_cmd_template": "bin/check --explain {path}",
            "engine": "xzfacts+rules",
            "level_claimed": {"category": "other", "text": c["text"], "design_ref": c["ref"]},
            "level_note": NOTE,
            "technique": c["technique"],
        })
    m = {
        "version": 1,
        "setup_cmd": "bin/setup",
        "hooks": {"guard": "TUKAANI_PROJECT_XZ_VERIF",
                  "enable": "none needed: nothing is instrumented or executed; checks parse /repo with the flags of /repo/_build/build.ninja",
                  "baseline_off_cmd": "cmake --build /repo/_build -j16 && ctest --test-dir /repo/_build -j8 --timeout 900",
                  "source_commits": [], "add_only": True},
        "engines": [{"name": "xzfacts+rules", "path": "tools/xzfacts.cc, sa/, rules/, spec/",
                     "serves_properties": sorted(CLAIMED),
                     "kind_free_text": "libTooling fact extractor (AST, record layouts, clang::CFG) + Python rule engines: "
                                       "finite-domain path-sensitive product graphs, liveness/reaching definitions, lockset, "
                                       "ownership, table/layout agreement, call-graph rules"}],
        "checks": checks,
        "not_applicable": [{"property_id": p, "reason": r} for p, r in sorted(NA_REASON.items())],
        "notes": "Static analysis only. Exit codes: 0 ok, 1 VIOLATION, 2 analysis broken (anchor vanished / instance floor not met). "
                 "Genuine defects fixed in /repo are listed in known_findings.json (status fixed).",
    }
    with open(os.path.join(V, "MANIFEST.json"), "w") as fh:
        json.dump(m, fh, indent=1)
    print("MANIFEST.json: %d checks, %d not_applicable" % (len(checks), len(m["not_applicable"])))

if __name__ == "__main__":
    main()
