#!/usr/bin/env python3
"""tools/mkknownfns.py : snapshot of the functions (with bodies) defined in every analysed source file, written to
rules/known_functions.json.  sa/report.py uses it to tell "the rule looked at the code it was written for and the construct
is not there" (a violation) from "the function now calls a helper that did not exist when the rule was written" (the rule is
intraprocedural and cannot see into it: undecided, exit 2).  Regenerate after a fix: commit that adds or removes functions."""
import json, os, sys
V = os.path.dirname(os.path.dirname(os.path.abspath(__file__)))
sys.path.insert(0, V)
from rules import common
from sa import report
from sa.facts import relpath

ck = report.Check("C01")
out = {}
for tg in ("liblzma", "xz", "xzdec", "lzmadec", "lzmainfo"):
    try:
        prog = common.program(ck, (tg,))
    except Exception as e:
        print("skip", tg, e)
        continue
    for fs in prog.functions.values():
        for f in fs:
            if f.blocks:
                out.setdefault(relpath(f.file), set()).add(f.name)
json.dump({k: sorted(v) for k, v in sorted(out.items())}, open(os.path.join(V, "rules", "known_functions.json"), "w"), indent=0)
print("known_functions.json: %d files, %d functions" % (len(out), sum(len(v) for v in out.values())))
