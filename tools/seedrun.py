#!/usr/bin/env python3
"""tools/seedrun.py <dir with patch.diff> [property ...]

Applies a seeded change to /repo (git apply), runs the quick checks (all, or the named ones) with evidence redirected to
a scratch directory, prints which keys fire, and undoes the change (git checkout -- .).  Never commits."""
import json, os, subprocess, sys, tempfile, shutil
from concurrent.futures import ThreadPoolExecutor

VERIF = os.path.dirname(os.path.dirname(os.path.abspath(__file__)))
REPO = "/repo"
ALL = ["C%02d" % i for i in range(1, 21)]


def main():
    d = sys.argv[1]
    props = sys.argv[2:] or ALL
    patch = os.path.join(d, "patch.diff")
    st = subprocess.run(["git", "-C", REPO, "status", "--porcelain", "--untracked-files=no"], capture_output=True, text=True)
    if st.stdout.strip():
        print("refusing: /repo has local modifications:\n" + st.stdout)
        return 2
    r = subprocess.run(["git", "-C", REPO, "apply", patch], capture_output=True, text=True)
    if r.returncode != 0:
        print("patch does not apply: " + r.stderr)
        return 2
    out = {}
    try:
        def one(p):
            ev = tempfile.mkdtemp(prefix="xzverif-seed-")
            env = dict(os.environ, VERIF_EVIDENCE_DIR=ev)
            rr = subprocess.run([os.path.join(VERIF, "bin", "check"), p], capture_output=True, text=True, env=env)
            keys = []
            vd = os.path.join(ev, "violations")
            if os.path.isdir(vd):
                for fn in sorted(os.listdir(vd)):
                    j = json.load(open(os.path.join(vd, fn)))
                    keys.append((j["key"], j["where"], j["message"][:160]))
            shutil.rmtree(ev, ignore_errors=True)
            broken = [l for l in rr.stdout.splitlines() if l.startswith("ANALYSIS-BROKEN")]
            return p, rr.returncode, keys, broken
        with ThreadPoolExecutor(max_workers=6) as ex:
            for p, rc, keys, broken in ex.map(one, props):
                out[p] = (rc, keys, broken)
    finally:
        subprocess.run(["git", "-C", REPO, "checkout", "--", "."], check=True)
    fired = {p: v for p, v in out.items() if v[0] != 0}
    for p, (rc, keys, broken) in sorted(out.items()):
        if rc == 0:
            continue
        print("%s exit=%d" % (p, rc))
        for k in keys:
            print("    %s  @ %s  %s" % k)
        for b in broken:
            print("    " + b[:200])
    if not fired:
        print("no check fires")
    return 0


if __name__ == "__main__":
    sys.exit(main())
