#!/usr/bin/env python3
"""tools/seedrun.py <dir with patch.diff> [property ...]

Runs the quick checks (all, or the named ones) against a seeded change WITHOUT touching /repo: the files named by the
patch are copied to a scratch directory, patched there, and handed to the analysers through the same virtual-file
override that bin/selftest uses (XZ_VERIF_OVERRIDE for C sources/headers, XZ_VERIF_FILE_OVERRIDE for scripts).
Equivalent to `git -C /repo apply patch.diff; bin/check ...; git -C /repo checkout -- .` for patches that only modify
existing files."""
import json, os, re, subprocess, sys, tempfile, shutil
from concurrent.futures import ThreadPoolExecutor

VERIF = os.path.dirname(os.path.dirname(os.path.abspath(__file__)))
REPO = "/repo"
ALL = ["C%02d" % i for i in range(1, 21)]


def main():
    d = sys.argv[1]
    props = sys.argv[2:] or ALL
    patch = os.path.join(d, "patch.diff")
    txt = open(patch).read()
    files = re.findall(r"^\+\+\+ b/(\S+)", txt, re.M)
    tmp = tempfile.mkdtemp(prefix="xzverif-seedsrc-")
    try:
        for f in files:
            os.makedirs(os.path.dirname(os.path.join(tmp, f)), exist_ok=True)
            shutil.copy(os.path.join(REPO, f), os.path.join(tmp, f))
        r = subprocess.run(["patch", "-p1", "-s", "-d", tmp, "-i", os.path.abspath(patch)], capture_output=True, text=True)
        if r.returncode != 0:
            print("patch does not apply to the current tree: " + (r.stdout + r.stderr)[-300:])
            return 2
        c_ov = ",".join("%s=%s" % (os.path.join(REPO, f), os.path.join(tmp, f)) for f in files if f.endswith((".c", ".h")))
        o_ov = ",".join("%s=%s" % (os.path.join(REPO, f), os.path.join(tmp, f)) for f in files if not f.endswith((".c", ".h")))

        def one(p):
            ev = tempfile.mkdtemp(prefix="xzverif-seed-")
            env = dict(os.environ, VERIF_EVIDENCE_DIR=ev)
            if c_ov:
                env["XZ_VERIF_OVERRIDE"] = c_ov
            if o_ov:
                env["XZ_VERIF_FILE_OVERRIDE"] = o_ov
            rr = subprocess.run([os.path.join(VERIF, "bin", "check"), p], capture_output=True, text=True, env=env)
            keys = []
            vd = os.path.join(ev, "violations")
            if os.path.isdir(vd):
                for fn in sorted(os.listdir(vd)):
                    j = json.load(open(os.path.join(vd, fn)))
                    keys.append((j["key"], j["where"], j["message"][:160]))
            shutil.rmtree(ev, ignore_errors=True)
            broken = [l for l in rr.stdout.splitlines() if l.startswith("ANALYSIS-BROKEN")]
            return p, rr.returncode, keys, broken
        out = {}
        with ThreadPoolExecutor(max_workers=5) as ex:
            for p, rc, keys, broken in ex.map(one, props):
                out[p] = (rc, keys, broken)
    finally:
        shutil.rmtree(tmp, ignore_errors=True)
    fired = False
    for p, (rc, keys, broken) in sorted(out.items()):
        if rc == 0:
            continue
        fired = True
        print("%s exit=%d" % (p, rc))
        for k in keys:
            print("    %s  @ %s  %s" % k)
        for b in broken:
            print("    " + b[:200])
    if not fired:
        print("no check fires")
    return 0


if __name__ == "__main__":
    sys.exit(main())
