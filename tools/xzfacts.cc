// xzfacts — libTooling fact extractor for the /verif static rules.
//
// usage: xzfacts <out.json> <source.c> -- <clang args...>
//
// Emits, for one translation unit, one JSON object:
//   records, enums, globals (with initialiser trees), functions (with
//   clang::CFG: blocks, ordered elements as expression trees, terminators,
//   ordered successors, case/label info).
// Nothing of the analysed program is executed.
//
// Expression node kinds ("k"):
//   const{v}  enum{n,v}  str{s}  var{n,id,s}  mem{f,rec,arrow,b}  idx{b,i}
//   call{fn|callee,args}  un{op,e}  bin{op,l,r}  asg{op,l,r}  cond{c,t,f}
//   cast{ty,e}  init{e[],fields[]}  cl{ty,e}  asm{...}  decl{id,n,init}
//   ret{e}  eref{b,i}  other{cls,ch[]}
// Every node carries "ln" (expansion line); nodes from macros carry
// "m" (immediate macro) and "M" (outermost macro).

#include "clang/AST/ASTConsumer.h"
#include "clang/AST/ASTContext.h"
#include "clang/AST/RecordLayout.h"
#include "clang/AST/RecursiveASTVisitor.h"
#include "clang/Analysis/CFG.h"
#include "clang/Frontend/CompilerInstance.h"
#include "clang/Frontend/FrontendAction.h"
#include "clang/Lex/Lexer.h"
#include "clang/Tooling/CompilationDatabase.h"
#include "clang/Tooling/Tooling.h"
#include "llvm/Support/JSON.h"
#include "llvm/Support/MemoryBuffer.h"
#include <cstdlib>
#include "llvm/Support/raw_ostream.h"

#include <map>
#include <set>
#include <string>

using namespace clang;
namespace json = llvm::json;

static std::string OutPath;

namespace {

struct Extractor {
  ASTContext &Ctx;
  SourceManager &SM;
  PrintingPolicy PP;

  // per function
  std::map<const Stmt *, std::pair<unsigned, unsigned>> ElemMap;
  std::map<const VarDecl *, int> VarIds;
  std::vector<const VarDecl *> VarList;

  Extractor(ASTContext &C)
      : Ctx(C), SM(C.getSourceManager()), PP(C.getPrintingPolicy()) {
    PP.SuppressTagKeyword = false;
    PP.AnonymousTagLocations = false;
  }

  std::string fileOf(SourceLocation L) {
    SourceLocation E = SM.getExpansionLoc(L);
    if (E.isInvalid())
      return "";
    return SM.getFilename(E).str();
  }
  unsigned lineOf(SourceLocation L) {
    SourceLocation E = SM.getExpansionLoc(L);
    if (E.isInvalid())
      return 0;
    return SM.getExpansionLineNumber(E);
  }
  bool inSystem(SourceLocation L) {
    SourceLocation E = SM.getExpansionLoc(L);
    return E.isInvalid() || SM.isInSystemHeader(E);
  }
  static std::string base(const std::string &P) {
    size_t i = P.rfind('/');
    return i == std::string::npos ? P : P.substr(i + 1);
  }

  std::string typeStr(QualType T) { return T.getAsString(PP); }

  std::string recName(const RecordDecl *RD) {
    RD = RD->getDefinition() ? RD->getDefinition() : RD;
    std::string N;
    if (const IdentifierInfo *II = RD->getIdentifier())
      N = II->getName().str();
    else if (const TypedefNameDecl *TD = RD->getTypedefNameForAnonDecl())
      N = TD->getName().str();
    else {
      // anonymous: name after parent record and the field of that type
      const DeclContext *DC = RD->getDeclContext();
      if (const auto *PR = dyn_cast<RecordDecl>(DC)) {
        std::string P = recName(PR);
        unsigned Idx = 0;
        for (const Decl *D : PR->decls()) {
          if (const auto *FD = dyn_cast<FieldDecl>(D)) {
            const Type *Ty = FD->getType()->getBaseElementTypeUnsafe();
            if (const RecordType *RT = Ty->getAs<RecordType>())
              if (RT->getDecl()->getDefinition() == RD ||
                  RT->getDecl() == RD) {
                if (FD->getIdentifier())
                  return P + "." + FD->getName().str();
                return P + ".<anon" + std::to_string(Idx) + ">";
              }
            ++Idx;
          }
        }
        return P + ".<anon>";
      }
      return "anon@" + base(fileOf(RD->getLocation())) + ":" +
             std::to_string(lineOf(RD->getLocation()));
    }
    std::string F = fileOf(RD->getLocation());
    if (F.size() > 2 && F.substr(F.size() - 2) == ".c")
      N += "@" + base(F);
    return N;
  }

  void locAttrs(json::Object &O, SourceLocation L) {
    O["ln"] = (int64_t)lineOf(L);
    if (L.isMacroID()) {
      StringRef Imm = Lexer::getImmediateMacroName(L, SM, Ctx.getLangOpts());
      O["m"] = Imm.str();
      SourceLocation Cur = L, Prev = L;
      while (Cur.isMacroID()) {
        Prev = Cur;
        if (SM.isMacroArgExpansion(Cur))
          Cur = SM.getImmediateExpansionRange(Cur).getBegin();
        else
          Cur = SM.getImmediateExpansionRange(Cur).getBegin();
      }
      // Prev is the outermost macro location: name of that macro
      // is the identifier spelled at the expansion point
      SourceLocation Exp = SM.getExpansionLoc(L);
      StringRef Outer = Lexer::getSourceText(
          CharSourceRange::getTokenRange(Exp, Exp), SM, Ctx.getLangOpts());
      if (!Outer.empty() && Outer != Imm)
        O["M"] = Outer.str();
    }
  }

  static bool hasVarRef(const Stmt *S) {
    if (!S)
      return false;
    if (const auto *DRE = dyn_cast<DeclRefExpr>(S))
      if (isa<VarDecl>(DRE->getDecl()))
        return true;
    if (isa<CallExpr>(S) || isa<StmtExpr>(S))
      return true;
    if (isa<UnaryExprOrTypeTraitExpr>(S))
      return false; // sizeof/alignof operands are not evaluated
    for (const Stmt *C : S->children())
      if (hasVarRef(C))
        return true;
    return false;
  }

  json::Value intVal(const llvm::APSInt &V) {
    if (V.isSigned() || V.getActiveBits() <= 63)
      return json::Value((int64_t)V.getExtValue());
    return json::Value((uint64_t)V.getZExtValue());
  }

  json::Value serOpt(const Stmt *S, const Stmt *Root) {
    if (!S)
      return json::Value(nullptr);
    return ser(S, Root);
  }

  json::Value ser(const Stmt *S, const Stmt *Root) {
    if (!S)
      return json::Value(nullptr);
    if (S != Root) {
      auto It = ElemMap.find(S);
      if (It != ElemMap.end()) {
        json::Object O;
        O["k"] = "eref";
        O["b"] = (int64_t)It->second.first;
        O["i"] = (int64_t)It->second.second;
        return std::move(O);
      }
    }
    // transparent wrappers
    if (const auto *P = dyn_cast<ParenExpr>(S))
      return ser(P->getSubExpr(), Root);
    if (const auto *IC = dyn_cast<ImplicitCastExpr>(S))
      return ser(IC->getSubExpr(), Root);
    if (const auto *CE = dyn_cast<ConstantExpr>(S))
      return ser(CE->getSubExpr(), Root);
    if (const auto *FE = dyn_cast<FullExpr>(S))
      return ser(FE->getSubExpr(), Root);

    json::Object O;
    locAttrs(O, S->getBeginLoc());

    if (const auto *E = dyn_cast<Expr>(S)) {
      // enumerator reference
      if (const auto *DRE = dyn_cast<DeclRefExpr>(E)) {
        if (const auto *EC = dyn_cast<EnumConstantDecl>(DRE->getDecl())) {
          O["k"] = "enum";
          O["n"] = EC->getName().str();
          O["v"] = intVal(EC->getInitVal());
          return std::move(O);
        }
      }
      // foldable integer constants (no variables, no calls)
      if (!E->isValueDependent() && E->getType()->isIntegralOrEnumerationType() &&
          !isa<InitListExpr>(E) && !hasVarRef(E)) {
        Expr::EvalResult R;
        if (E->EvaluateAsInt(R, Ctx, Expr::SE_NoSideEffects)) {
          O["k"] = "const";
          O["v"] = intVal(R.Val.getInt());
          if (const auto *UE = dyn_cast<UnaryExprOrTypeTraitExpr>(E)) {
            if (UE->getKind() == UETT_SizeOf)
              O["sizeof"] = typeStr(UE->getTypeOfArgument());
          }
          return std::move(O);
        }
      }
    }

    if (const auto *DRE = dyn_cast<DeclRefExpr>(S)) {
      const ValueDecl *D = DRE->getDecl();
      O["k"] = "var";
      O["n"] = D->getNameAsString();
      if (const auto *VD = dyn_cast<VarDecl>(D)) {
        auto It = VarIds.find(VD);
        if (It != VarIds.end()) {
          O["id"] = (int64_t)It->second;
          O["s"] = isa<ParmVarDecl>(VD) ? "p" : "l";
        } else {
          O["s"] = "g";
        }
      } else if (isa<FunctionDecl>(D)) {
        O["s"] = "f";
      } else {
        O["s"] = "?";
      }
      return std::move(O);
    }
    if (const auto *ME = dyn_cast<MemberExpr>(S)) {
      O["k"] = "mem";
      O["f"] = ME->getMemberDecl()->getNameAsString();
      if (const auto *FD = dyn_cast<FieldDecl>(ME->getMemberDecl()))
        O["rec"] = recName(FD->getParent());
      if (ME->isArrow())
        O["arrow"] = true;
      O["b"] = ser(ME->getBase(), Root);
      return std::move(O);
    }
    if (const auto *AS = dyn_cast<ArraySubscriptExpr>(S)) {
      O["k"] = "idx";
      O["b"] = ser(AS->getBase(), Root);
      O["i"] = ser(AS->getIdx(), Root);
      return std::move(O);
    }
    if (const auto *CE = dyn_cast<CallExpr>(S)) {
      const FunctionDecl *FD = CE->getDirectCallee();
      if (FD && FD->getIdentifier() &&
          (FD->getName() == "__builtin_expect") && CE->getNumArgs() >= 1)
        return ser(CE->getArg(0), Root);
      O["k"] = "call";
      if (FD)
        O["fn"] = FD->getNameAsString();
      else
        O["callee"] = ser(CE->getCallee(), Root);
      json::Array A;
      for (const Expr *Arg : CE->arguments())
        A.push_back(ser(Arg, Root));
      O["args"] = std::move(A);
      return std::move(O);
    }
    if (const auto *UO = dyn_cast<UnaryOperator>(S)) {
      O["k"] = "un";
      std::string Op = UnaryOperator::getOpcodeStr(UO->getOpcode()).str();
      if (UO->isPostfix())
        Op = "post" + Op;
      else if (UO->isIncrementDecrementOp())
        Op = "pre" + Op;
      O["op"] = Op;
      O["e"] = ser(UO->getSubExpr(), Root);
      return std::move(O);
    }
    if (const auto *BO = dyn_cast<BinaryOperator>(S)) {
      if (BO->getOperatorLoc().isMacroID())
        O["om"] = Lexer::getImmediateMacroName(BO->getOperatorLoc(), SM,
                                               Ctx.getLangOpts()).str();
      O["k"] = BO->isAssignmentOp() ? "asg" : "bin";
      O["op"] = BO->getOpcodeStr().str();
      O["l"] = ser(BO->getLHS(), Root);
      O["r"] = ser(BO->getRHS(), Root);
      return std::move(O);
    }
    if (const auto *CO = dyn_cast<ConditionalOperator>(S)) {
      O["k"] = "cond";
      O["c"] = ser(CO->getCond(), Root);
      O["t"] = ser(CO->getTrueExpr(), Root);
      O["f"] = ser(CO->getFalseExpr(), Root);
      return std::move(O);
    }
    if (const auto *CS = dyn_cast<ExplicitCastExpr>(S)) {
      O["k"] = "cast";
      O["ty"] = typeStr(CS->getType());
      O["e"] = ser(CS->getSubExpr(), Root);
      return std::move(O);
    }
    if (const auto *IL = dyn_cast<InitListExpr>(S)) {
      const InitListExpr *Sem = IL->isSemanticForm() ? IL : IL->getSemanticForm();
      if (!Sem)
        Sem = IL;
      O["k"] = "init";
      O["ty"] = typeStr(Sem->getType());
      json::Array A;
      for (const Expr *I : Sem->inits())
        A.push_back(ser(I, Root));
      if (Sem->hasArrayFiller()) {
        O["filler"] = ser(Sem->getArrayFiller(), Root);
        if (const auto *CAT = Ctx.getAsConstantArrayType(Sem->getType()))
          O["n"] = (int64_t)CAT->getSize().getZExtValue();
      }
      O["e"] = std::move(A);
      if (const RecordType *RT = Sem->getType()->getAs<RecordType>()) {
        O["rec"] = recName(RT->getDecl());
        json::Array F;
        if (RT->getDecl()->isUnion()) {
          if (const FieldDecl *UF = Sem->getInitializedFieldInUnion())
            F.push_back(UF->getNameAsString());
        } else {
          for (const FieldDecl *FD : RT->getDecl()->fields()) {
            if (FD->isUnnamedBitfield())
              continue;
            F.push_back(FD->getNameAsString());
          }
        }
        O["fields"] = std::move(F);
      }
      return std::move(O);
    }
    if (isa<ImplicitValueInitExpr>(S)) {
      O["k"] = "zero";
      return std::move(O);
    }
    if (const auto *CL = dyn_cast<CompoundLiteralExpr>(S)) {
      O["k"] = "cl";
      O["ty"] = typeStr(CL->getType());
      O["e"] = ser(CL->getInitializer(), Root);
      return std::move(O);
    }
    if (const auto *SL = dyn_cast<StringLiteral>(S)) {
      O["k"] = "str";
      if (SL->getCharByteWidth() == 1) {
        // bytes as latin-1-safe escaped string
        std::string B = SL->getBytes().str();
        json::Array A;
        bool Ascii = true;
        for (unsigned char C : B)
          if (C >= 0x80 || C < 0x20)
            Ascii = false;
        if (Ascii)
          O["s"] = B;
        else {
          for (unsigned char C : B)
            A.push_back((int64_t)C);
          O["bytes"] = std::move(A);
        }
      }
      return std::move(O);
    }
    if (const auto *DS = dyn_cast<DeclStmt>(S)) {
      json::Array A;
      for (const Decl *D : DS->decls()) {
        if (const auto *VD = dyn_cast<VarDecl>(D)) {
          json::Object V;
          V["k"] = "decl";
          V["ln"] = (int64_t)lineOf(VD->getLocation());
          V["n"] = VD->getNameAsString();
          auto It = VarIds.find(VD);
          if (It != VarIds.end())
            V["id"] = (int64_t)It->second;
          if (VD->hasInit())
            V["init"] = ser(VD->getInit(), Root);
          A.push_back(std::move(V));
        }
      }
      if (A.size() == 1) {
        json::Object V = std::move(*A[0].getAsObject());
        if (O.get("m"))
          V["m"] = std::move(*O.get("m"));
        if (O.get("M"))
          V["M"] = std::move(*O.get("M"));
        return std::move(V);
      }
      O["k"] = "decls";
      O["d"] = std::move(A);
      return std::move(O);
    }
    if (const auto *RS = dyn_cast<ReturnStmt>(S)) {
      O["k"] = "ret";
      if (RS->getRetValue())
        O["e"] = ser(RS->getRetValue(), Root);
      return std::move(O);
    }
    if (const auto *AS = dyn_cast<GCCAsmStmt>(S)) {
      O["k"] = "asm";
      O["tmpl"] = AS->getAsmString()->getString().str();
      json::Array Outs, Ins, Cl, OC, IC;
      for (unsigned i = 0; i < AS->getNumOutputs(); ++i) {
        Outs.push_back(ser(AS->getOutputExpr(i), Root));
        OC.push_back(AS->getOutputConstraint(i).str());
      }
      for (unsigned i = 0; i < AS->getNumInputs(); ++i) {
        Ins.push_back(ser(AS->getInputExpr(i), Root));
        IC.push_back(AS->getInputConstraint(i).str());
      }
      for (unsigned i = 0; i < AS->getNumClobbers(); ++i)
        Cl.push_back(AS->getClobber(i).str());
      O["outs"] = std::move(Outs);
      O["ins"] = std::move(Ins);
      O["outc"] = std::move(OC);
      O["inc"] = std::move(IC);
      O["clob"] = std::move(Cl);
      return std::move(O);
    }
    if (const auto *SE = dyn_cast<StmtExpr>(S)) {
      O["k"] = "stmtexpr";
      json::Array A;
      for (const Stmt *C : SE->getSubStmt()->body())
        A.push_back(ser(C, Root));
      O["ch"] = std::move(A);
      return std::move(O);
    }
    if (const auto *E = dyn_cast<Expr>(S)) {
      // float literals etc.
      if (const auto *FL = dyn_cast<FloatingLiteral>(E)) {
        O["k"] = "float";
        O["v"] = FL->getValueAsApproximateDouble();
        return std::move(O);
      }
    }
    O["k"] = "other";
    O["cls"] = S->getStmtClassName();
    json::Array A;
    for (const Stmt *C : S->children())
      if (C)
        A.push_back(ser(C, Root));
    O["ch"] = std::move(A);
    return std::move(O);
  }

  struct VarCollector : RecursiveASTVisitor<VarCollector> {
    Extractor &X;
    VarCollector(Extractor &X) : X(X) {}
    bool VisitVarDecl(VarDecl *VD) {
      if (!X.VarIds.count(VD)) {
        X.VarIds[VD] = (int)X.VarList.size();
        X.VarList.push_back(VD);
      }
      return true;
    }
  };

  json::Value function(const FunctionDecl *FD) {
    ElemMap.clear();
    VarIds.clear();
    VarList.clear();
    json::Object F;
    F["name"] = FD->getNameAsString();
    F["file"] = fileOf(FD->getLocation());
    F["line"] = (int64_t)lineOf(FD->getLocation());
    F["endline"] = (int64_t)lineOf(FD->getBody()->getEndLoc());
    F["static"] = FD->getStorageClass() == SC_Static;
    F["inline"] = FD->isInlineSpecified();
    F["ret"] = typeStr(FD->getReturnType());
    F["extern_vis"] = FD->isExternallyVisible();
    if (const auto *VA = FD->getAttr<VisibilityAttr>())
      F["visibility"] =
          std::string(VisibilityAttr::ConvertVisibilityTypeToStr(VA->getVisibility()));
    for (const ParmVarDecl *P : FD->parameters()) {
      VarIds[P] = (int)VarList.size();
      VarList.push_back(P);
    }
    VarCollector VC(*this);
    VC.TraverseStmt(FD->getBody());
    json::Array Vars;
    for (const VarDecl *VD : VarList) {
      json::Object V;
      V["id"] = (int64_t)VarIds[VD];
      V["n"] = VD->getNameAsString();
      V["ty"] = typeStr(VD->getType());
      V["ln"] = (int64_t)lineOf(VD->getLocation());
      if (isa<ParmVarDecl>(VD))
        V["param"] = true;
      if (VD->isStaticLocal())
        V["static"] = true;
      if (const RecordType *RT = VD->getType()->getAs<RecordType>())
        V["rec"] = recName(RT->getDecl());
      else if (VD->getType()->isPointerType()) {
        QualType PT = VD->getType()->getPointeeType();
        if (const RecordType *RT2 = PT->getAs<RecordType>())
          V["prec"] = recName(RT2->getDecl());
      }
      Vars.push_back(std::move(V));
    }
    F["vars"] = std::move(Vars);

    CFG::BuildOptions BO;
    std::unique_ptr<CFG> G =
        CFG::buildCFG(FD, FD->getBody(), &Ctx, BO);
    if (!G) {
      F["cfg"] = nullptr;
      return std::move(F);
    }
    for (const CFGBlock *B : *G) {
      unsigned I = 0;
      for (const CFGElement &E : *B) {
        if (auto CS = E.getAs<CFGStmt>())
          ElemMap[CS->getStmt()] = {B->getBlockID(), I};
        ++I;
      }
    }
    json::Object C;
    C["entry"] = (int64_t)G->getEntry().getBlockID();
    C["exit"] = (int64_t)G->getExit().getBlockID();
    json::Array Blocks;
    for (const CFGBlock *B : *G) {
      json::Object JB;
      JB["id"] = (int64_t)B->getBlockID();
      json::Array Elems;
      for (const CFGElement &E : *B) {
        if (auto CS = E.getAs<CFGStmt>())
          Elems.push_back(ser(CS->getStmt(), CS->getStmt()));
        else
          Elems.push_back(json::Value(nullptr));
      }
      JB["elems"] = std::move(Elems);
      if (const Stmt *T = B->getTerminatorStmt()) {
        json::Object JT;
        JT["kind"] = T->getStmtClassName();
        JT["ln"] = (int64_t)lineOf(T->getBeginLoc());
        if (T->getBeginLoc().isMacroID()) {
          json::Object Tmp;
          locAttrs(Tmp, T->getBeginLoc());
          if (Tmp.get("m"))
            JT["m"] = std::move(*Tmp.get("m"));
          if (Tmp.get("M"))
            JT["M"] = std::move(*Tmp.get("M"));
        }
        if (const auto *BOp = dyn_cast<BinaryOperator>(T))
          JT["op"] = BOp->getOpcodeStr().str();
        if (const auto *GS = dyn_cast<GotoStmt>(T))
          JT["label"] = GS->getLabel()->getName().str();
        if (const Stmt *Cond = B->getTerminatorCondition(false)) {
          // For nested && / ||, the value tested at the end of this block is
          // the right-most operand of the (left-associated) condition.
          if (!isa<SwitchStmt>(T)) {
            while (true) {
              const Expr *CE = dyn_cast<Expr>(Cond);
              if (!CE)
                break;
              CE = CE->IgnoreParens();
              const auto *LB = dyn_cast<BinaryOperator>(CE);
              if (LB && LB->isLogicalOp())
                Cond = LB->getRHS();
              else {
                Cond = CE;
                break;
              }
            }
          }
          JT["cond"] = ser(Cond, Cond);
        }
        JB["term"] = std::move(JT);
      }
      json::Array Succs, Unreach;
      for (auto SI = B->succ_begin(); SI != B->succ_end(); ++SI) {
        if (const CFGBlock *SB = SI->getReachableBlock())
          Succs.push_back((int64_t)SB->getBlockID());
        else if (const CFGBlock *UB = SI->getPossiblyUnreachableBlock()) {
          Succs.push_back(json::Value(nullptr));
          Unreach.push_back((int64_t)UB->getBlockID());
        } else
          Succs.push_back(json::Value(nullptr));
      }
      JB["succs"] = std::move(Succs);
      if (!Unreach.empty())
        JB["unreach"] = std::move(Unreach);
      if (const Stmt *L = B->getLabel()) {
        json::Object JL;
        JL["ln"] = (int64_t)lineOf(L->getBeginLoc());
        if (const auto *CS = dyn_cast<CaseStmt>(L)) {
          JL["kind"] = "case";
          const Expr *LHS = CS->getLHS();
          Expr::EvalResult R;
          if (LHS->EvaluateAsInt(R, Ctx))
            JL["v"] = intVal(R.Val.getInt());
          if (const auto *DRE =
                  dyn_cast<DeclRefExpr>(LHS->IgnoreParenImpCasts()))
            if (const auto *EC = dyn_cast<EnumConstantDecl>(DRE->getDecl()))
              JL["n"] = EC->getName().str();
          if (CS->getRHS()) {
            Expr::EvalResult R2;
            if (CS->getRHS()->EvaluateAsInt(R2, Ctx))
              JL["v2"] = intVal(R2.Val.getInt());
          }
        } else if (isa<DefaultStmt>(L)) {
          JL["kind"] = "default";
        } else if (const auto *LS = dyn_cast<LabelStmt>(L)) {
          JL["kind"] = "label";
          JL["n"] = LS->getName();
        } else {
          JL["kind"] = L->getStmtClassName();
        }
        JB["label"] = std::move(JL);
      }
      Blocks.push_back(std::move(JB));
    }
    C["blocks"] = std::move(Blocks);
    F["cfg"] = std::move(C);
    return std::move(F);
  }

  json::Value record(const RecordDecl *RD) {
    json::Object R;
    R["name"] = recName(RD);
    R["file"] = fileOf(RD->getLocation());
    R["line"] = (int64_t)lineOf(RD->getLocation());
    R["union"] = RD->isUnion();
    if (const IdentifierInfo *II = RD->getIdentifier())
      R["tag"] = II->getName().str();
    if (const TypedefNameDecl *TD = RD->getTypedefNameForAnonDecl())
      R["typedef"] = TD->getName().str();
    json::Array Fs;
    bool Layout = !RD->isInvalidDecl() && RD->isCompleteDefinition() &&
                  !RD->isDependentType();
    const ASTRecordLayout *L = nullptr;
    if (Layout) {
      // flexible arrays etc. are fine
      L = &Ctx.getASTRecordLayout(RD);
      R["size"] = (int64_t)L->getSize().getQuantity();
    }
    unsigned I = 0;
    for (const FieldDecl *FD : RD->fields()) {
      json::Object F;
      F["n"] = FD->getNameAsString();
      F["ty"] = typeStr(FD->getType());
      F["ln"] = (int64_t)lineOf(FD->getLocation());
      if (L)
        F["off"] = (int64_t)L->getFieldOffset(I);
      if (const auto *CAT = Ctx.getAsConstantArrayType(FD->getType()))
        F["arr"] = (int64_t)CAT->getSize().getZExtValue();
      const Type *BT = FD->getType()->getBaseElementTypeUnsafe();
      if (const RecordType *RT = BT->getAs<RecordType>())
        F["rec"] = recName(RT->getDecl());
      else if (BT->isPointerType()) {
        if (const RecordType *RT2 = BT->getPointeeType()->getAs<RecordType>())
          F["prec"] = recName(RT2->getDecl());
        if (BT->getPointeeType()->isFunctionType() ||
            BT->getPointeeType()->isFunctionProtoType())
          F["fnptr"] = true;
      }
      if (const EnumType *ET = BT->getAs<EnumType>()) {
        const EnumDecl *ED = ET->getDecl();
        if (ED->getIdentifier())
          F["enum"] = ED->getName().str();
        else if (const TypedefNameDecl *TD = ED->getTypedefNameForAnonDecl())
          F["enum"] = TD->getName().str();
        else
          F["enum"] = "anon@" + base(fileOf(ED->getLocation())) + ":" +
                      std::to_string(lineOf(ED->getLocation()));
      }
      Fs.push_back(std::move(F));
      ++I;
    }
    R["fields"] = std::move(Fs);
    return std::move(R);
  }

  json::Value enumDecl(const EnumDecl *ED) {
    json::Object R;
    std::string N;
    if (ED->getIdentifier())
      N = ED->getName().str();
    else if (const TypedefNameDecl *TD = ED->getTypedefNameForAnonDecl())
      N = TD->getName().str();
    else
      N = "anon@" + base(fileOf(ED->getLocation())) + ":" +
          std::to_string(lineOf(ED->getLocation()));
    R["name"] = N;
    R["file"] = fileOf(ED->getLocation());
    R["line"] = (int64_t)lineOf(ED->getLocation());
    // owner: record + field whose type is this enum (for anonymous enums)
    json::Array Es;
    for (const EnumConstantDecl *EC : ED->enumerators()) {
      json::Array P;
      P.push_back(EC->getName().str());
      P.push_back(intVal(EC->getInitVal()));
      Es.push_back(std::move(P));
    }
    R["enumerators"] = std::move(Es);
    return std::move(R);
  }
};

struct TopVisitor : RecursiveASTVisitor<TopVisitor> {
  Extractor &X;
  json::Array Records, Enums, Globals, Functions, Decls;
  TopVisitor(Extractor &X) : X(X) {}

  bool VisitRecordDecl(RecordDecl *RD) {
    if (!RD->isThisDeclarationADefinition() || X.inSystem(RD->getLocation()))
      return true;
    Records.push_back(X.record(RD));
    return true;
  }
  bool VisitEnumDecl(EnumDecl *ED) {
    if (!ED->isThisDeclarationADefinition() || X.inSystem(ED->getLocation()))
      return true;
    Enums.push_back(X.enumDecl(ED));
    return true;
  }
  bool VisitVarDecl(VarDecl *VD) {
    if (!VD->isFileVarDecl() || X.inSystem(VD->getLocation()))
      return true;
    json::Object G;
    G["name"] = VD->getNameAsString();
    G["ty"] = X.typeStr(VD->getType());
    G["file"] = X.fileOf(VD->getLocation());
    G["line"] = (int64_t)X.lineOf(VD->getLocation());
    G["static"] = VD->getStorageClass() == SC_Static;
    G["const"] = VD->getType().isConstQualified() ||
                 (VD->getType()->isArrayType() &&
                  X.Ctx.getBaseElementType(VD->getType()).isConstQualified());
    G["def"] = VD->isThisDeclarationADefinition() != VarDecl::DeclarationOnly;
    if (VD->getTLSKind() != VarDecl::TLS_None)
      G["tls"] = true;
    if (VD->getType().isVolatileQualified())
      G["volatile"] = true;
    if (VD->hasInit()) {
      X.ElemMap.clear();
      X.VarIds.clear();
      G["init"] = X.ser(VD->getInit(), nullptr);
    }
    Globals.push_back(std::move(G));
    return true;
  }
  bool VisitFunctionDecl(FunctionDecl *FD) {
    if (X.inSystem(FD->getLocation()))
      return true;
    if (!FD->doesThisDeclarationHaveABody()) {
      return true;
    }
    Functions.push_back(X.function(FD));
    return true;
  }
  // do not descend into function bodies for record/enum/var collection twice
  bool shouldVisitImplicitCode() const { return false; }
};

class Consumer : public ASTConsumer {
public:
  void HandleTranslationUnit(ASTContext &Ctx) override {
    if (Ctx.getDiagnostics().hasErrorOccurred()) {
      llvm::errs() << "xzfacts: parse errors, no output\n";
      return;
    }
    Extractor X(Ctx);
    TopVisitor V(X);
    V.TraverseDecl(Ctx.getTranslationUnitDecl());
    json::Object Root;
    SourceManager &SM = Ctx.getSourceManager();
    if (const FileEntry *FE = SM.getFileEntryForID(SM.getMainFileID()))
      Root["main"] = FE->getName().str();
    Root["records"] = std::move(V.Records);
    Root["enums"] = std::move(V.Enums);
    Root["globals"] = std::move(V.Globals);
    Root["functions"] = std::move(V.Functions);
    std::error_code EC;
    llvm::raw_fd_ostream OS(OutPath, EC);
    if (EC) {
      llvm::errs() << "xzfacts: cannot write " << OutPath << "\n";
      return;
    }
    OS << json::Value(std::move(Root));
    OS << "\n";
  }
};

class Action : public ASTFrontendAction {
public:
  std::unique_ptr<ASTConsumer> CreateASTConsumer(CompilerInstance &,
                                                 StringRef) override {
    return std::make_unique<Consumer>();
  }
};

} // namespace

int main(int argc, const char **argv) {
  if (argc < 4) {
    llvm::errs() << "usage: xzfacts <out.json> <source.c> -- <clang args>\n";
    return 2;
  }
  OutPath = argv[1];
  std::string Src = argv[2];
  int Argc2 = argc - 2;
  std::string Err;
  std::unique_ptr<tooling::CompilationDatabase> DB =
      tooling::FixedCompilationDatabase::loadFromCommandLine(Argc2, argv + 2,
                                                             Err);
  if (!DB) {
    llvm::errs() << "xzfacts: " << Err << "\n";
    return 2;
  }
  tooling::ClangTool Tool(*DB, {Src});
  // selftest only: analyse scratch copies in place of original files
  // (XZFACTS_REMAP="orig=replacement,orig2=replacement2")
  static std::vector<std::string> Keep;
  if (const char *Remap = getenv("XZFACTS_REMAP")) {
    std::string RS(Remap);
    size_t Pos = 0;
    while (Pos < RS.size()) {
      size_t End = RS.find(',', Pos);
      if (End == std::string::npos)
        End = RS.size();
      std::string Pair = RS.substr(Pos, End - Pos);
      size_t Eq = Pair.find('=');
      if (Eq != std::string::npos) {
        std::string Orig = Pair.substr(0, Eq), Repl = Pair.substr(Eq + 1);
        auto Buf = llvm::MemoryBuffer::getFile(Repl);
        if (Buf) {
          Keep.push_back((*Buf)->getBuffer().str());
          Keep.push_back(Orig);
          Tool.mapVirtualFile(Keep[Keep.size() - 1], Keep[Keep.size() - 2]);
        }
      }
      Pos = End + 1;
    }
  }
  int R = Tool.run(tooling::newFrontendActionFactory<Action>().get());
  return R == 0 ? 0 : 2;
}
