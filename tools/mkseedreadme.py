#!/usr/bin/env python3
"""tools/mkseedreadme.py : regenerates seeded/README.md from the meta.json files of all rounds."""
import glob, json, os

V = os.path.dirname(os.path.dirname(os.path.abspath(__file__)))


def load(tag):
    out = []
    for d in sorted(glob.glob(os.path.join(V, "seeded", tag + "-*"))):
        out.append(json.load(open(os.path.join(d, "meta.json"))))
    return out


def table(metas, first=True):
    rows = []
    for m in metas:
        sid = m["seed_id"]
        P = sid[3:6]
        own = m["checks_reporting_it"].get(P, [])
        others = sorted(k for k in m["checks_reporting_it"] if k != P)
        note = m.get("sweep_note", "")
        cell = ("`%s`" % own[0]) if own else ("**not reported**" + (" (%s)" % note if note else ""))
        row = "| %s | %s | %s | %s |" % (sid, m.get("title", "")[:95].replace("|", "\\|"), cell, ", ".join(others))
        if first:
            row += " %s |" % ("yes" if m.get("reported_at_first_contact") else "no")
        rows.append(row)
    return "\n".join(rows)


def main():
    r1, r2, r3, r4, r5, r6, r7, r8 = load("r1"), load("r2"), load("r3"), load("r4"), load("r5"), load("r6"), load("r7"), load("r8")

    def own(ms):
        return sum(1 for m in ms if m["own_property_check_reports_it"])

    def fc(ms):
        return sum(1 for m in ms if m.get("reported_at_first_contact"))
    txt = """# Seeded changes

Each directory holds one change to tukaani-project/xz that a fresh sub-agent produced from nothing but the text of one
property and a scratch git worktree (never `/repo`, nothing from `/verif`): `patch.diff` (applies at the root of `/repo`),
the sub-agent's demonstration (`demo.c` / `demo.sh` and small inputs), and `meta.json` (the sub-agent's description plus
what was confirmed here: `confirmed_by_verif` = build ok, 19/19 tests pass, tails of the demonstration against the patched
and the clean build; `checks_reporting_it` = violation keys per property check, `own_property_check_reports_it`, and for
rounds 2 to 8 `reported_at_first_contact` = reported by the seeded property's own check before any rule was added in
response to that round).

None of these changes is, or ever was, committed to `/repo`. To run the checks against one:

    git -C /repo apply /verif/seeded/<id>/patch.diff
    /verif/bin/check C07            # or any property
    git -C /repo checkout -- .

or, without touching `/repo`, `python3 /verif/tools/seedrun.py /verif/seeded/<id> [Cxx ...]`.
Patches of round 1 whose context was changed by a later `fix:` commit were rebased (`patch.orig-tree.diff` keeps the
original). Every change that its own property's check reports is registered in `selftest/mutants.json` as a patch mutant
(`r1-...` to `r8-...`): the thorough tier fails if it stops being reported.

| round | changes | reported at first contact (own check) | reported now (own check) |
|---|---|---|---|
| 1 (`r1-*`) | %d | 9 | %d |
| 2 (`r2-*`) | %d | %d | %d |
| 3 (`r3-*`) | %d | %d | %d |
| 4 (`r4-*`) | %d | %d | %d |
| 5 (`r5-*`) | %d | %d | %d |
| 6 (`r6-*`) | %d | %d | %d |
| 7 (`r7-*`) | %d | %d | %d |
| 8 (`r8-*`) | %d | %d | %d |

"Also reported by" lists checks of other properties that contain the same rule on purpose (shared rules such as RESUME,
RESET, EXIT, LOCALOWN, READFIRST, DICTSIB, ACCUM are wired into every property whose statement they are a necessary
condition of). No check of an unrelated property reports a violation on any of the changes. A few changes make a check
exit 2 ("analysis broken") instead: they delete the construct a rule is anchored on, and a vanished anchor is never a
pass (`r1-C02-1`, `r4-C02-2`; `r2-C09-3` for C10-CACHEKEY).

Not reported, and why: `r1-C02-1` and `r4-C02-2` (rounding smear
replaced by a `get_dist_slot()` expression: exit 2), `r3-C14-3` (a new
alignment fast path in the CLMUL CRC: deciding it means interpreting carry-less-multiplication folding over 128-bit
lanes for every alignment, i.e. symbolic execution).

## Round 8

| seed | change | key reported by the property's own check | also reported by | at first contact |
|---|---|---|---|---|
%s

## Round 7

| seed | change | key reported by the property's own check | also reported by | at first contact |
|---|---|---|---|---|
%s

## Round 6

| seed | change | key reported by the property's own check | also reported by | at first contact |
|---|---|---|---|---|
%s

## Round 5

| seed | change | key reported by the property's own check | also reported by | at first contact |
|---|---|---|---|---|
%s

## Round 4

| seed | change | key reported by the property's own check | also reported by | at first contact |
|---|---|---|---|---|
%s

## Round 3

| seed | change | key reported by the property's own check | also reported by | at first contact |
|---|---|---|---|---|
%s

## Round 2

| seed | change | key reported by the property's own check | also reported by | at first contact |
|---|---|---|---|---|
%s

## Round 1

| seed | change | key reported by the property's own check | also reported by |
|---|---|---|---|
%s
""" % (len(r1), own(r1), len(r2), fc(r2), own(r2), len(r3), fc(r3), own(r3), len(r4), fc(r4), own(r4), len(r5), fc(r5), own(r5), len(r6), fc(r6), own(r6), len(r7), fc(r7), own(r7), len(r8), fc(r8), own(r8), table(r8), table(r7), table(r6), table(r5), table(r4), table(r3), table(r2), table(r1, first=False))
    open(os.path.join(V, "seeded", "README.md"), "w").write(txt)
    print("README: r1 %d/%d, r2 %d/%d (first %d), r3 %d/%d (first %d), r4 %d/%d (first %d), r5 %d/%d (first %d), r6 %d/%d (first %d), r7 %d/%d (first %d), r8 %d/%d (first %d)" % (
        own(r1), len(r1), own(r2), len(r2), fc(r2), own(r3), len(r3), fc(r3), own(r4), len(r4), fc(r4), own(r5), len(r5), fc(r5), own(r6), len(r6), fc(r6), own(r7), len(r7), fc(r7), own(r8), len(r8), fc(r8)))


if __name__ == "__main__":
    main()
